package sx

// Solver layer: SMT-LIB2 text over a pipe to one long-lived solver process
// per worker.  Terms are sent as global definitions (tN), so every term is
// printed once per process.

import (
	"bufio"
	"fmt"
	"io"
	"os"
	"os/exec"
	"strconv"
	"strings"
	"time"
)

type Verdict int

const (
	Sat Verdict = iota
	Unsat
	Unknown
)

func (v Verdict) String() string {
	return [...]string{"sat", "unsat", "unknown"}[v]
}

type SolverStats struct {
	Queries  int
	Sat      int
	Unsat    int
	Unknown  int
	Errors   int
	Seconds  float64
	Asserted int
}

type Solver struct {
	Name    string
	cmd     *exec.Cmd
	in      io.WriteCloser
	w       *bufio.Writer
	out     *bufio.Reader
	defined map[int]bool
	declard map[string]bool
	depth   int
	Stats   SolverStats
	Log     io.Writer // optional transcript
	dead    bool
	timeout int
	What    string // label of the query in flight (diagnostics)
}

// NewSolver starts kind ∈ {"z3","z3-new","cvc5"} with a per-query timeout in ms.
func NewSolver(kind string, timeoutMs int) (*Solver, error) {
	var cmd *exec.Cmd
	switch kind {
	case "z3", "z3-new":
		cmd = exec.Command(kind, "-in", "-smt2")
	case "cvc5":
		cmd = exec.Command("cvc5", "--incremental", "--lang=smt2", "--fp-exp", fmt.Sprintf("--tlimit-per=%d", timeoutMs))
	default:
		return nil, fmt.Errorf("unknown solver %q", kind)
	}
	in, err := cmd.StdinPipe()
	if err != nil {
		return nil, err
	}
	out, err := cmd.StdoutPipe()
	if err != nil {
		return nil, err
	}
	cmd.Stderr = cmd.Stdout
	if err := cmd.Start(); err != nil {
		return nil, err
	}
	s := &Solver{Name: kind, cmd: cmd, in: in, w: bufio.NewWriterSize(in, 1<<16), out: bufio.NewReaderSize(out, 1<<16),
		defined: map[int]bool{}, declard: map[string]bool{}, timeout: timeoutMs}
	if lf := os.Getenv("GOSYM_SMTLOG"); lf != "" {
		if f, err := os.OpenFile(fmt.Sprintf("%s.%d", lf, cmd.Process.Pid), os.O_CREATE|os.O_WRONLY|os.O_TRUNC, 0o644); err == nil {
			s.Log = f
		}
	}
	s.send("(set-option :global-declarations true)")
	s.send("(set-option :produce-models true)")
	if kind != "cvc5" {
		s.send(fmt.Sprintf("(set-option :timeout %d)", timeoutMs))
	} else {
		s.send("(set-logic ALL)")
	}
	return s, nil
}

func (s *Solver) Close() {
	if s == nil || s.dead {
		return
	}
	s.dead = true
	s.w.Flush()
	s.in.Close()
	done := make(chan struct{})
	go func() { s.cmd.Wait(); close(done) }()
	select {
	case <-done:
	case <-time.After(2 * time.Second):
		s.cmd.Process.Kill()
	}
}

func (s *Solver) send(line string) {
	if s.Log != nil {
		fmt.Fprintln(s.Log, line)
	}
	s.w.WriteString(line)
	s.w.WriteByte('\n')
}

func (s *Solver) ensure(t *Term) {
	switch t.Op {
	case OConst:
		return
	case OVar:
		if !s.declard[t.Name] {
			s.declard[t.Name] = true
			s.send(fmt.Sprintf("(declare-const %s %s)", t.Name, t.S.SMT()))
		}
		return
	}
	if s.defined[t.ID] {
		return
	}
	for _, a := range t.Args {
		s.ensure(a)
	}
	s.defined[t.ID] = true
	s.send(fmt.Sprintf("(define-fun t%d () %s %s)", t.ID, t.S.SMT(), t.Body()))
}

func (s *Solver) Push() { s.depth++; s.send("(push 1)") }
func (s *Solver) Pop()  { s.depth--; s.send("(pop 1)") }

// PopAll returns to the base level.
func (s *Solver) PopAll() {
	for s.depth > 0 {
		s.Pop()
	}
}

func (s *Solver) Assert(t *Term) {
	if t.IsConst() && t.Val == 1 {
		return
	}
	s.ensure(t)
	s.Stats.Asserted++
	s.send("(assert " + t.Ref() + ")")
}

func (s *Solver) readLine() (string, error) {
	line, err := s.out.ReadString('\n')
	return strings.TrimSpace(line), err
}

// Check runs (check-sat) on the current assertion stack.
func (s *Solver) Check() Verdict {
	t0 := time.Now()
	s.send("(check-sat)")
	s.w.Flush()
	s.Stats.Queries++
	v := Unknown
	for {
		line, err := s.readLine()
		if err != nil {
			s.Stats.Errors++
			s.dead = true
			break
		}
		if line == "" {
			continue
		}
		if line == "sat" {
			v = Sat
			break
		}
		if line == "unsat" {
			v = Unsat
			break
		}
		if line == "unknown" || line == "timeout" {
			break
		}
		if strings.HasPrefix(line, "(error") {
			s.Stats.Errors++
			if s.Log != nil {
				fmt.Fprintln(s.Log, "; ERROR: "+line)
			}
			LastSolverError = line
			// an error line precedes the verdict; keep reading but remember
			continue
		}
		// anything else: ignore (warnings)
	}
	if s.Stats.Errors > 0 {
		v = Unknown
	}
	dt := time.Since(t0).Seconds()
	s.Stats.Seconds += dt
	if dt > 1 && SlowQueryLog != nil {
		SlowQueryLog(dt, s.What)
	}
	switch v {
	case Sat:
		s.Stats.Sat++
	case Unsat:
		s.Stats.Unsat++
	default:
		s.Stats.Unknown++
	}
	return v
}

var LastSolverError string

// SlowQueryLog, if set, is called for queries slower than 1 s.
var SlowQueryLog func(secs float64, what string)

// CheckWith checks the stack plus one extra assertion, leaving the stack unchanged.
func (s *Solver) CheckWith(t *Term) Verdict {
	if t.IsConst() {
		if t.Val == 0 {
			return Unsat
		}
		return s.Check()
	}
	s.ensure(t)
	s.Push()
	s.send("(assert " + t.Ref() + ")")
	v := s.Check()
	s.Pop()
	return v
}

// CheckWithModel is CheckWith, returning values of vars on sat.
func (s *Solver) CheckWithModel(t *Term, vars []*Term) (Verdict, map[string]uint64) {
	s.ensure(t)
	s.Push()
	defer s.Pop()
	if !(t.IsConst() && t.Val == 1) {
		s.send("(assert " + t.Ref() + ")")
	}
	v := s.Check()
	if v != Sat {
		return v, nil
	}
	return v, s.Values(vars)
}

// Values returns the model values (bit patterns) of the given terms after a
// sat verdict.
func (s *Solver) Values(vars []*Term) map[string]uint64 {
	res := map[string]uint64{}
	if len(vars) == 0 {
		return res
	}
	var sb strings.Builder
	sb.WriteString("(get-value (")
	for _, v := range vars {
		s.ensure(v)
		if v.S.K == KFP {
			// ask for the IEEE bits through a to-bv trick is not available; parse fp literal
		}
		sb.WriteString(v.Ref())
		sb.WriteByte(' ')
	}
	sb.WriteString("))")
	s.send(sb.String())
	s.w.Flush()
	text := s.readSexp()
	vals := parseGetValue(text)
	for i, v := range vars {
		if i < len(vals) {
			bits, ok := parseValue(vals[i], v.S)
			if ok {
				res[v.Ref()] = bits
			}
		}
	}
	return res
}

func (s *Solver) readSexp() string {
	var sb strings.Builder
	depth := 0
	started := false
	for {
		line, err := s.out.ReadString('\n')
		for _, c := range line {
			if c == '(' {
				depth++
				started = true
			} else if c == ')' {
				depth--
			}
		}
		sb.WriteString(line)
		if err != nil || (started && depth <= 0) {
			break
		}
	}
	return sb.String()
}

// parseGetValue splits "((a v1) (b v2))" into the value texts.
func parseGetValue(text string) []string {
	toks := tokenize(text)
	// parse into tree
	pos := 0
	var parse func() interface{}
	parse = func() interface{} {
		if pos >= len(toks) {
			return nil
		}
		t := toks[pos]
		pos++
		if t == "(" {
			var list []interface{}
			for pos < len(toks) && toks[pos] != ")" {
				list = append(list, parse())
			}
			pos++
			return list
		}
		return t
	}
	tree := parse()
	var out []string
	top, _ := tree.([]interface{})
	for _, pair := range top {
		p, _ := pair.([]interface{})
		if len(p) == 2 {
			out = append(out, unparse(p[1]))
		}
	}
	return out
}

func unparse(x interface{}) string {
	switch x := x.(type) {
	case string:
		return x
	case []interface{}:
		parts := make([]string, len(x))
		for i, e := range x {
			parts[i] = unparse(e)
		}
		return "(" + strings.Join(parts, " ") + ")"
	}
	return ""
}

func tokenize(s string) []string {
	var toks []string
	i := 0
	for i < len(s) {
		c := s[i]
		switch {
		case c == '(' || c == ')':
			toks = append(toks, string(c))
			i++
		case c == ' ' || c == '\n' || c == '\t' || c == '\r':
			i++
		case c == '|':
			j := i + 1
			for j < len(s) && s[j] != '|' {
				j++
			}
			toks = append(toks, s[i:j+1])
			i = j + 1
		default:
			j := i
			for j < len(s) && !strings.ContainsRune("() \n\t\r", rune(s[j])) {
				j++
			}
			toks = append(toks, s[i:j])
			i = j
		}
	}
	return toks
}

func parseBits(tok string) (uint64, int, bool) {
	if strings.HasPrefix(tok, "#x") {
		v, err := strconv.ParseUint(tok[2:], 16, 64)
		return v, 4 * (len(tok) - 2), err == nil
	}
	if strings.HasPrefix(tok, "#b") {
		v, err := strconv.ParseUint(tok[2:], 2, 64)
		return v, len(tok) - 2, err == nil
	}
	return 0, 0, false
}

// parseValue converts a model value text into a bit pattern of sort s.
func parseValue(text string, s Sort) (uint64, bool) {
	text = strings.TrimSpace(text)
	switch s.K {
	case KBool:
		return map[string]uint64{"true": 1, "false": 0}[text], text == "true" || text == "false"
	case KBV:
		if strings.HasPrefix(text, "(_ bv") {
			f := strings.Fields(strings.Trim(text, "()"))
			if len(f) >= 2 {
				v, err := strconv.ParseUint(strings.TrimPrefix(f[1], "bv"), 10, 64)
				return v, err == nil
			}
		}
		v, _, ok := parseBits(text)
		return v, ok
	case KFP:
		eb, sbits := 11, 52
		if s.W == 32 {
			eb, sbits = 8, 23
		}
		t := strings.Trim(text, "()")
		f := strings.Fields(t)
		if len(f) == 4 && f[0] == "fp" {
			sg, _, ok1 := parseBits(f[1])
			ex, _, ok2 := parseBits(f[2])
			mn, _, ok3 := parseBits(f[3])
			if ok1 && ok2 && ok3 {
				return sg<<uint(eb+sbits) | ex<<uint(sbits) | mn, true
			}
		}
		if len(f) >= 2 && f[0] == "_" {
			expAll := mask(eb) << uint(sbits)
			switch f[1] {
			case "+zero":
				return 0, true
			case "-zero":
				return 1 << uint(eb+sbits), true
			case "+oo":
				return expAll, true
			case "-oo":
				return 1<<uint(eb+sbits) | expAll, true
			case "NaN":
				return expAll | 1<<uint(sbits-1), true
			}
		}
	}
	return 0, false
}

// Derived from golang.org/x/tools/go/ssa/interp (BSD license, The Go Authors).
//
// Package sx is a bounded symbolic executor for Go SSA: the concrete
// semantics of every instruction come from x/tools' ssa/interp; scalars may be
// SMT terms, branches on symbolic conditions fork (explored by re-execution
// with decision prefixes), and implicit run-time checks become solver queries.
package sx

import (
	"fmt"
	"go/token"
	"go/types"
	"os"
	"runtime"
	"slices"
	"strings"
	_ "unsafe"

	"golang.org/x/tools/go/ssa"
)

type continuation int

const (
	kNext continuation = iota
	kReturn
	kJump
)

type methodSet map[string]*ssa.Function

// Engine-level panics (never visible to the target's recover).
type unsupported string           // construct/model missing: run is inconclusive
type pathEnd struct{ why string } // path terminated normally (assume false, assertion failed, ...)
type budgetExceeded struct{ what string }

// targetRuntimeError is a Go run-time panic raised by the target program.
type targetRuntimeError string

func (e targetRuntimeError) Error() string { return "runtime error: " + string(e) }

func mustDeref(t types.Type) types.Type {
	if p, ok := t.Underlying().(*types.Pointer); ok {
		return p.Elem()
	}
	panic(fmt.Sprintf("mustDeref: %s is not a pointer", t))
}

// State of one run (one path) of the target program.
type interpreter struct {
	P                  *Program
	prog               *ssa.Program
	globals            map[*ssa.Global]*value // addresses of global variables
	sizes              types.Sizes
	reflectPackage     *ssa.Package
	errorMethods       methodSet
	rtypeMethods       methodSet
	runtimeErrorString types.Type
	tt                 *TermTable
	run                *Run
	steps              int64
	budget             int64 // absolute step limit set by sym.Budget (0 = engine default)
	depth              int
	maxDepthSeen       int
	sched              *scheduler
	cur                *thread
	top                *frame // innermost frame (left at the panic site when unwinding)
}

func (i *interpreter) whereAmI() string {
	if i.top == nil {
		return ""
	}
	fr := i.top
	s := fr.fn.String()
	if fr.caller != nil {
		s += " <- " + fr.caller.fn.String()
	}
	return s
}

// targetStack renders the target-level call stack of the innermost frame.
func (i *interpreter) targetStack() string {
	var sb strings.Builder
	n := 0
	for fr := i.top; fr != nil && n < 40; fr = fr.caller {
		pos := ""
		if fr.callpos.IsValid() {
			pos = " called at " + i.prog.Fset.Position(fr.callpos).String()
		}
		fmt.Fprintf(&sb, "  %s%s\n", fr.fn, pos)
		n++
	}
	return sb.String()
}

type deferred struct {
	fn    value
	args  []value
	instr *ssa.Defer
	tail  *deferred
}

type frame struct {
	i                *interpreter
	caller           *frame
	fn               *ssa.Function
	block, prevBlock *ssa.BasicBlock
	env              map[ssa.Value]value // dynamic values of SSA variables
	locals           []value
	defers           *deferred
	result           value
	panicking        bool
	panic            interface{}
	phitemps         []value // temporaries for parallel phi assignment
	callpos          token.Pos
}

func (fr *frame) get(key ssa.Value) value {
	switch key := key.(type) {
	case nil:
		return nil
	case *ssa.Function, *ssa.Builtin:
		return key
	case *ssa.Const:
		return constValue(key)
	case *ssa.Global:
		if r, ok := fr.i.globals[key]; ok {
			if key.Pkg != nil && !fr.i.P.initAllowed(key.Pkg) && !zeroReadable[key.Pkg.Pkg.Path()] {
				panic(unsupported("read of global " + key.String() + " of a package whose initialiser is not run"))
			}
			return r
		}
	}
	if r, ok := fr.env[key]; ok {
		return r
	}
	panic(fmt.Sprintf("get: no value for %T: %v", key, key.Name()))
}

// packages whose (uninitialised, zero) globals may be read: feature flags
// and the like, where zero means "feature absent".
var zeroReadable = map[string]bool{"internal/cpu": true, "internal/godebug": true, "runtime": true}

func isEnginePanic(p interface{}) bool {
	switch p.(type) {
	case unsupported, pathEnd, budgetExceeded, *threadAbort:
		return true
	}
	return false
}

// runDefer runs a deferred call d.
func (fr *frame) runDefer(d *deferred) {
	var ok bool
	defer func() {
		if !ok {
			// Deferred call created a new state of panic.
			fr.panicking = true
			fr.panic = recover()
		}
	}()
	call(fr.i, fr, d.instr.Pos(), d.fn, d.args)
	ok = true
}

// runDefers executes fr's deferred function calls in LIFO order.
func (fr *frame) runDefers() {
	for d := fr.defers; d != nil; d = d.tail {
		if fr.panicking && isEnginePanic(fr.panic) {
			break
		}
		fr.runDefer(d)
	}
	fr.defers = nil
	if fr.panicking {
		panic(fr.panic) // new panic, or still panicking
	}
}

// lookupMethod returns the method set for type typ, which may be one
// of the interpreter's fake types.
func lookupMethod(i *interpreter, typ types.Type, meth *types.Func) *ssa.Function {
	switch typ {
	case rtypeType:
		return i.rtypeMethods[meth.Id()]
	case errorType:
		return i.errorMethods[meth.Id()]
	}
	return i.prog.LookupMethod(typ, meth.Pkg(), meth.Name())
}

// visitInstr interprets a single ssa.Instruction within the activation
// record frame.
func visitInstr(fr *frame, instr ssa.Instruction) continuation {
	i := fr.i
	switch instr := instr.(type) {
	case *ssa.DebugRef:
		// no-op

	case *ssa.UnOp:
		fr.env[instr] = unop(i, instr, fr.get(instr.X))

	case *ssa.BinOp:
		fr.env[instr] = binop(i, instr.Op, instr.X.Type(), fr.get(instr.X), fr.get(instr.Y))

	case *ssa.Call:
		fn, args := prepareCall(fr, &instr.Call)
		fr.env[instr] = call(fr.i, fr, instr.Pos(), fn, args)

	case *ssa.ChangeInterface:
		fr.env[instr] = fr.get(instr.X)

	case *ssa.ChangeType:
		fr.env[instr] = fr.get(instr.X) // (can't fail)

	case *ssa.Convert:
		fr.env[instr] = conv(i, instr.Type(), instr.X.Type(), fr.get(instr.X))

	case *ssa.SliceToArrayPointer:
		fr.env[instr] = sliceToArrayPointer(instr.Type(), instr.X.Type(), fr.get(instr.X))

	case *ssa.MakeInterface:
		fr.env[instr] = iface{t: instr.X.Type(), v: fr.get(instr.X)}

	case *ssa.Extract:
		fr.env[instr] = fr.get(instr.Tuple).(tuple)[instr.Index]

	case *ssa.Slice:
		fr.env[instr] = slice(i, fr.get(instr.X), fr.get(instr.Low), fr.get(instr.High), fr.get(instr.Max))

	case *ssa.Return:
		switch len(instr.Results) {
		case 0:
		case 1:
			fr.result = fr.get(instr.Results[0])
		default:
			var res []value
			for _, r := range instr.Results {
				res = append(res, fr.get(r))
			}
			fr.result = tuple(res)
		}
		fr.block = nil
		return kReturn

	case *ssa.RunDefers:
		fr.runDefers()

	case *ssa.Panic:
		panic(targetPanic{fr.get(instr.X)})

	case *ssa.Send:
		panic(unsupported("channel send"))

	case *ssa.Store:
		addr := fr.get(instr.Addr)
		if sr, ok := addr.(*symref); ok {
			addr = i.concretizeRef(sr)
		}
		i.access(addr.(*value), true)
		store(mustDeref(instr.Addr.Type()), addr.(*value), fr.get(instr.Val))

	case *ssa.If:
		if !NoSwitchMerge {
			if _, symbolic := fr.get(instr.Cond).(*SV); symbolic {
				if ch := switchChain(fr.block); ch != nil && i.execSwitchChain(fr, ch) {
					return kJump
				}
			}
		}
		succ := 1
		if i.truthAt(fr.get(instr.Cond), instr) {
			succ = 0
		}
		fr.prevBlock, fr.block = fr.block, fr.block.Succs[succ]
		return kJump

	case *ssa.Jump:
		fr.prevBlock, fr.block = fr.block, fr.block.Succs[0]
		return kJump

	case *ssa.Defer:
		fn, args := prepareCall(fr, &instr.Call)
		defers := &fr.defers
		if into := fr.get(instr.DeferStack); into != nil {
			defers = into.(**deferred)
		}
		*defers = &deferred{
			fn:    fn,
			args:  args,
			instr: instr,
			tail:  *defers,
		}

	case *ssa.Go:
		fn, args := prepareCall(fr, &instr.Call)
		i.spawn(instr, fn, args)

	case *ssa.MakeChan:
		panic(unsupported("make(chan)"))

	case *ssa.Alloc:
		var addr *value
		if instr.Heap {
			// new
			addr = new(value)
			fr.env[instr] = addr
		} else {
			// local
			addr = fr.env[instr].(*value)
		}
		*addr = zero(mustDeref(instr.Type()))

	case *ssa.MakeSlice:
		c := i.asInt(fr.get(instr.Cap))
		l := i.asInt(fr.get(instr.Len))
		if l < 0 || c < l || c > 1<<24 {
			panic(targetRuntimeError(fmt.Sprintf("makeslice: len/cap out of range (%d, %d)", l, c)))
		}
		slice := make([]value, c)
		tElt := instr.Type().Underlying().(*types.Slice).Elem()
		for i := range slice {
			slice[i] = zero(tElt)
		}
		fr.env[instr] = slice[:l]

	case *ssa.MakeMap:
		var reserve int64
		if instr.Reserve != nil {
			reserve = i.asInt(fr.get(instr.Reserve))
		}
		fr.env[instr] = makeMap(instr.Type().Underlying().(*types.Map).Key(), reserve)

	case *ssa.Range:
		fr.env[instr] = rangeIter(i, fr.get(instr.X), instr.X.Type())

	case *ssa.Next:
		fr.env[instr] = fr.get(instr.Iter).(iter).next()

	case *ssa.FieldAddr:
		p := fr.get(instr.X).(*value)
		if p == nil {
			panic(targetRuntimeError("invalid memory address or nil pointer dereference"))
		}
		fr.env[instr] = &(*p).(structure)[instr.Field]

	case *ssa.Field:
		fr.env[instr] = fr.get(instr.X).(structure)[instr.Field]

	case *ssa.IndexAddr:
		x := fr.get(instr.X)
		idx := fr.get(instr.Index)
		var elems []value
		switch x := x.(type) {
		case []value:
			elems = x
		case *value: // *array
			if x == nil {
				panic(targetRuntimeError("invalid memory address or nil pointer dereference"))
			}
			elems = (*x).(array)
		default:
			panic(fmt.Sprintf("unexpected x type in IndexAddr: %T", x))
		}
		fr.env[instr] = i.indexAddr(elems, idx)

	case *ssa.Index:
		x := fr.get(instr.X)
		idx := fr.get(instr.Index)

		switch x := x.(type) {
		case array:
			p := i.indexAddr(x, idx)
			if sr, ok := p.(*symref); ok {
				fr.env[instr] = i.loadSymref(sr)
			} else {
				fr.env[instr] = *(p.(*value))
			}
		case string, *SStr:
			fr.env[instr] = i.indexString(x, idx)
		default:
			panic(fmt.Sprintf("unexpected x type in Index: %T", x))
		}

	case *ssa.Lookup:
		fr.env[instr] = lookup(i, instr, fr.get(instr.X), fr.get(instr.Index))

	case *ssa.MapUpdate:
		m := fr.get(instr.Map)
		key := fr.get(instr.Key)
		v := fr.get(instr.Value)
		switch m := m.(type) {
		case *omap:
			i.accessMap(m, true)
			m.insert(i, key, v)
		default:
			panic(fmt.Sprintf("illegal map type: %T", m))
		}

	case *ssa.TypeAssert:
		fr.env[instr] = typeAssert(fr.i, instr, fr.get(instr.X).(iface))

	case *ssa.MakeClosure:
		var bindings []value
		for _, binding := range instr.Bindings {
			bindings = append(bindings, fr.get(binding))
		}
		fr.env[instr] = &closure{instr.Fn.(*ssa.Function), bindings}

	case *ssa.Phi:
		panic("unreachable") // phis are processed at block entry

	case *ssa.Select:
		panic(unsupported("select"))

	default:
		panic(fmt.Sprintf("unexpected instruction: %T", instr))
	}

	return kNext
}

// prepareCall determines the function value and argument values for a
// function call in a Call, Go or Defer instruction, performing
// interface method lookup if needed.
func prepareCall(fr *frame, call *ssa.CallCommon) (fn value, args []value) {
	v := fr.get(call.Value)
	if call.Method == nil {
		// Function call.
		fn = v
	} else {
		// Interface method invocation.
		recv := v.(iface)
		if recv.t == nil {
			panic(targetRuntimeError("invalid memory address or nil pointer dereference (method invoked on nil interface)"))
		}
		if f := lookupMethod(fr.i, recv.t, call.Method); f == nil {
			// Unreachable in well-typed programs.
			panic(fmt.Sprintf("method set for dynamic type %v does not contain %s", recv.t, call.Method))
		} else {
			fn = f
		}
		args = append(args, recv.v)
	}
	for _, arg := range call.Args {
		args = append(args, fr.get(arg))
	}
	return
}

// call interprets a call to a function (function, builtin or closure)
// fn with arguments args, returning its result.
func call(i *interpreter, caller *frame, callpos token.Pos, fn value, args []value) value {
	switch fn := fn.(type) {
	case *ssa.Function:
		if fn == nil {
			panic(targetRuntimeError("invalid memory address or nil pointer dereference (call of nil function)"))
		}
		return callSSA(i, caller, callpos, fn, args, nil)
	case *closure:
		return callSSA(i, caller, callpos, fn.Fn, args, fn.Env)
	case *ssa.Builtin:
		return callBuiltin(caller, callpos, fn, args)
	}
	panic(fmt.Sprintf("cannot call %T", fn))
}

func loc(fset *token.FileSet, pos token.Pos) string {
	if pos == token.NoPos {
		return ""
	}
	return " at " + fset.Position(pos).String()
}

// callSSA interprets a call to function fn with arguments args,
// and lexical environment env, returning its result.
func callSSA(i *interpreter, caller *frame, callpos token.Pos, fn *ssa.Function, args []value, env []value) value {
	fr := &frame{
		i:       i,
		caller:  caller, // for panic/recover
		fn:      fn,
		callpos: callpos,
	}
	if fn.Parent() == nil {
		if ext := i.P.external(fn); ext != nil {
			return ext(fr, args)
		}
		if fn.Blocks == nil {
			panic(unsupported("no code for function: " + fn.String()))
		}
		// package initialisers run only for the allow-list
		if fn.Signature.Recv() == nil && fn.Name() == "init" && fn.Pkg != nil && fn.Pkg.Func("init") == fn {
			if !i.P.initAllowed(fn.Pkg) {
				return nil
			}
		}
	}

	// generic function body?
	if fn.TypeParams().Len() > 0 && len(fn.TypeArgs()) == 0 {
		panic("interp requires ssa.BuilderMode to include InstantiateGenerics to execute generics")
	}

	i.depth++
	if i.depth > i.maxDepthSeen {
		i.maxDepthSeen = i.depth
	}
	if i.depth > i.run.cfg.MaxDepth {
		panic(budgetExceeded{fmt.Sprintf("call depth %d exceeded in %s", i.run.cfg.MaxDepth, fn)})
	}
	defer func() { i.depth-- }()
	i.run.touch(fn)

	fr.env = make(map[ssa.Value]value, 16)
	fr.block = fn.Blocks[0]
	fr.locals = make([]value, len(fn.Locals))
	for k, l := range fn.Locals {
		fr.locals[k] = zero(mustDeref(l.Type()))
		fr.env[l] = &fr.locals[k]
	}
	for k, p := range fn.Params {
		fr.env[p] = args[k]
	}
	for k, fv := range fn.FreeVars {
		fr.env[fv] = env[k]
	}
	i.top = fr
	for fr.block != nil {
		runFrame(fr)
	}
	i.top = caller
	return fr.result
}

// runFrame executes SSA instructions starting at fr.block and
// continuing until a return, a panic, or a recovered panic.
func runFrame(fr *frame) {
	defer func() {
		if fr.block == nil {
			return // normal return
		}
		fr.panicking = true
		fr.panic = recover()
		if isEnginePanic(fr.panic) {
			panic(fr.panic)
		}
		fr.runDefers()
		fr.block = fr.fn.Recover
	}()

	i := fr.i
	for {
		nonPhis := executePhis(fr)
		n := int64(len(nonPhis))
		i.steps += n
		i.run.instrs[fr.fn] += n
		if i.steps > i.run.cfg.MaxSteps || (i.budget > 0 && i.steps > i.budget) {
			panic(budgetExceeded{fmt.Sprintf("instruction budget exceeded after %d instructions in %s", i.steps, fr.fn)})
		}
		for _, instr := range nonPhis {
			if visitInstr(fr, instr) == kReturn {
				return
			}
			// Inv: kNext (continue) or kJump (last instr)
		}
	}
}

// executePhis executes the phi-nodes at the start of the current
// block and returns the non-phi instructions.
func executePhis(fr *frame) []ssa.Instruction {
	firstNonPhi := -1
	for i, instr := range fr.block.Instrs {
		if _, ok := instr.(*ssa.Phi); !ok {
			firstNonPhi = i
			break
		}
	}
	// Inv: 0 <= firstNonPhi; every block contains a non-phi.

	nonPhis := fr.block.Instrs[firstNonPhi:]
	if firstNonPhi > 0 {
		phis := fr.block.Instrs[:firstNonPhi]
		predIndex := slices.Index(fr.block.Preds, fr.prevBlock)
		fr.phitemps = fr.phitemps[:0]
		for _, phi := range phis {
			phi := phi.(*ssa.Phi)
			fr.phitemps = append(fr.phitemps, fr.get(phi.Edges[predIndex]))
		}
		for i, phi := range phis {
			fr.env[phi.(*ssa.Phi)] = fr.phitemps[i]
		}
	}
	return nonPhis
}

// doRecover implements the recover() built-in.
func doRecover(caller *frame) value {
	// recover() must be exactly one level beneath the deferred
	// function (two levels beneath the panicking function) to
	// have any effect.
	if caller != nil && !caller.panicking &&
		caller.caller != nil && caller.caller.panicking {
		p := caller.caller.panic
		if isEnginePanic(p) {
			return iface{}
		}
		caller.caller.panicking = false
		caller.caller.panic = nil

		switch p := p.(type) {
		case targetPanic:
			// The target program explicitly called panic().
			return p.v
		case targetRuntimeError:
			return iface{caller.i.runtimeErrorString, p.Error()}
		case runtime.Error:
			// The interpreter encountered a runtime error.
			return iface{caller.i.runtimeErrorString, p.Error()}
		case string:
			// The interpreter explicitly called panic().
			return iface{caller.i.runtimeErrorString, p}
		default:
			panic(fmt.Sprintf("unexpected panic type %T in target call to recover()", p))
		}
	}
	return iface{}
}

// ----------------------------------------------------------------------
// Indexing helpers

// symref is the address elems[idx] for a symbolic idx (bounds already checked).
type symref struct {
	elems []value
	idx   *Term
}

func (i *interpreter) boundsCheck(idx *SV, n int) {
	tt := i.tt
	w := idx.T.S.W
	var oob *Term
	if kindSigned(idx.K) {
		neg := tt.Cmp(OSlt, idx.T, tt.Const(idx.T.S, 0))
		if w < 64 && uint64(n) > mask(w-1) {
			oob = neg // every non-negative value is below n
		} else {
			oob = tt.Or(neg, tt.Cmp(OSle, tt.Const(idx.T.S, uint64(n)), idx.T))
		}
	} else {
		if w < 64 && uint64(n) > mask(w) {
			return
		}
		oob = tt.Cmp(OUle, tt.Const(idx.T.S, uint64(n)), idx.T)
	}
	if i.decide(oob, "index out of range") {
		panic(targetRuntimeError(fmt.Sprintf("index out of range [symbolic] with length %d", n)))
	}
}

// indexAddr returns &elems[idx] (*value) or a *symref.
func (i *interpreter) indexAddr(elems []value, idx value) value {
	if sv, ok := idx.(*SV); ok {
		i.boundsCheck(sv, len(elems))
		if scalarElems(elems) {
			return &symref{elems: elems, idx: sv.T}
		}
		k := i.concretize(sv)
		return &elems[k]
	}
	k := asInt64(idx)
	if k < 0 || k >= int64(len(elems)) {
		panic(targetRuntimeError(fmt.Sprintf("index out of range [%d] with length %d", k, len(elems))))
	}
	return &elems[k]
}

func scalarElems(elems []value) bool {
	if len(elems) == 0 || len(elems) > 1024 {
		return false
	}
	var k types.BasicKind = -1
	for _, e := range elems {
		switch e.(type) {
		case bool, int, int8, int16, int32, int64, uint, uint8, uint16, uint32, uint64, uintptr, *SV:
			k2 := kindOf(e)
			if k >= 0 && k2 != k {
				return false
			}
			k = k2
		default:
			return false
		}
	}
	return true
}

func (i *interpreter) loadSymref(sr *symref) value {
	k := kindOf(sr.elems[0])
	es := kindSort(k)
	allc := true
	for _, e := range sr.elems {
		if _, ok := e.(*SV); ok {
			allc = false
			break
		}
	}
	if allc {
		tab := make([]uint64, len(sr.elems))
		for n, e := range sr.elems {
			tab[n] = i.term(e).Val
		}
		return i.mk(k, i.tt.Table(tab, es, sr.idx))
	}
	res := i.term(sr.elems[len(sr.elems)-1])
	for n := len(sr.elems) - 2; n >= 0; n-- {
		res = i.tt.Ite(i.tt.Eq(sr.idx, i.tt.Const(sr.idx.S, uint64(n))), i.term(sr.elems[n]), res)
	}
	return i.mk(k, res)
}

func (i *interpreter) concretizeRef(sr *symref) *value {
	k := i.concretizeTerm(sr.idx, "store through symbolic index")
	return &sr.elems[k]
}

func (i *interpreter) indexString(x value, idx value) value {
	n := strLen(x)
	if sv, ok := idx.(*SV); ok {
		i.boundsCheck(sv, n)
		bs := strBytes(x)
		return i.loadSymref(&symref{elems: bs, idx: sv.T})
	}
	k := asInt64(idx)
	if k < 0 || k >= int64(n) {
		panic(targetRuntimeError(fmt.Sprintf("index out of range [%d] with length %d", k, n)))
	}
	switch x := x.(type) {
	case string:
		return x[k]
	case *SStr:
		return x.B[k]
	}
	panic("indexString")
}

// asInt returns a concrete integer, concretising a symbolic one by forking
// over its feasible values.
func (i *interpreter) asInt(v value) int64 {
	if sv, ok := v.(*SV); ok {
		return i.concretize(sv)
	}
	return asInt64(v)
}

func (i *interpreter) concretize(sv *SV) int64 {
	bits := i.concretizeTerm(sv.T, "concretize")
	if kindSigned(sv.K) {
		return sext64(bits, kindWidth(sv.K))
	}
	return int64(bits)
}

// truth returns the concrete truth value of a bool or symbolic bool (forking).
func (i *interpreter) truth(v value) bool {
	switch v := v.(type) {
	case bool:
		return v
	case *SV:
		return i.decide(v.T, "branch")
	}
	panic(fmt.Sprintf("truth(%T)", v))
}

func (i *interpreter) truthAt(v value, instr *ssa.If) bool {
	switch v := v.(type) {
	case bool:
		return v
	case *SV:
		return i.decide(v.T, "if")
	}
	panic(fmt.Sprintf("truth(%T)", v))
}

func fprintPanic(p interface{}) string {
	switch p := p.(type) {
	case targetPanic:
		return "panic: " + toString(p.v)
	case targetRuntimeError:
		return "panic: " + p.Error()
	case runtime.Error:
		return "panic: " + p.Error()
	case string:
		return "panic: " + p
	default:
		return fmt.Sprintf("panic: %T %v", p, p)
	}
}

var _ = os.Stderr

// NoSwitchMerge disables switch-chain merging (swchain.go), for comparison runs.
var NoSwitchMerge = os.Getenv("GOSYM_NO_SWITCH_MERGE") != ""

package sx

// Symbolic counterparts of the interpreter's scalar and string operations.

import (
	"fmt"
	"go/token"
	"go/types"
	"math"
)

func isSym(v value) bool {
	switch v.(type) {
	case *SV, *SStr:
		return true
	}
	return false
}

func kindWidth(k types.BasicKind) int {
	switch k {
	case types.Int8, types.Uint8:
		return 8
	case types.Int16, types.Uint16:
		return 16
	case types.Int32, types.Uint32:
		return 32
	case types.Int, types.Int64, types.Uint, types.Uint64, types.Uintptr:
		return 64
	}
	panic(fmt.Sprintf("kindWidth(%v)", k))
}

func kindSigned(k types.BasicKind) bool {
	switch k {
	case types.Int, types.Int8, types.Int16, types.Int32, types.Int64:
		return true
	}
	return false
}

func kindIsInt(k types.BasicKind) bool {
	switch k {
	case types.Int, types.Int8, types.Int16, types.Int32, types.Int64,
		types.Uint, types.Uint8, types.Uint16, types.Uint32, types.Uint64, types.Uintptr:
		return true
	}
	return false
}

func kindIsFloat(k types.BasicKind) bool { return k == types.Float32 || k == types.Float64 }

func kindSort(k types.BasicKind) Sort {
	switch k {
	case types.Bool:
		return SortBool
	case types.Float32:
		return SortF32
	case types.Float64:
		return SortF64
	}
	return BV(kindWidth(k))
}

// kindOf returns the basic kind of a scalar value.
func kindOf(v value) types.BasicKind {
	switch v := v.(type) {
	case *SV:
		return v.K
	case bool:
		return types.Bool
	case int:
		return types.Int
	case int8:
		return types.Int8
	case int16:
		return types.Int16
	case int32:
		return types.Int32
	case int64:
		return types.Int64
	case uint:
		return types.Uint
	case uint8:
		return types.Uint8
	case uint16:
		return types.Uint16
	case uint32:
		return types.Uint32
	case uint64:
		return types.Uint64
	case uintptr:
		return types.Uintptr
	case float32:
		return types.Float32
	case float64:
		return types.Float64
	}
	panic(unsupported(fmt.Sprintf("kindOf(%T)", v)))
}

// term returns the SMT term of a scalar value.
func (i *interpreter) term(v value) *Term {
	switch v := v.(type) {
	case *SV:
		return v.T
	case bool:
		return i.tt.Bool(v)
	case int:
		return i.tt.Const(BV(64), uint64(v))
	case int8:
		return i.tt.Const(BV(8), uint64(v))
	case int16:
		return i.tt.Const(BV(16), uint64(v))
	case int32:
		return i.tt.Const(BV(32), uint64(v))
	case int64:
		return i.tt.Const(BV(64), uint64(v))
	case uint:
		return i.tt.Const(BV(64), uint64(v))
	case uint8:
		return i.tt.Const(BV(8), uint64(v))
	case uint16:
		return i.tt.Const(BV(16), uint64(v))
	case uint32:
		return i.tt.Const(BV(32), uint64(v))
	case uint64:
		return i.tt.Const(BV(64), v)
	case uintptr:
		return i.tt.Const(BV(64), uint64(v))
	case float32:
		return i.tt.Const(SortF32, uint64(math.Float32bits(v)))
	case float64:
		return i.tt.Const(SortF64, math.Float64bits(v))
	}
	panic(unsupported(fmt.Sprintf("term(%T)", v)))
}

// concreteOf converts constant bits of kind k to a native Go value.
func concreteOf(k types.BasicKind, bits uint64) value {
	switch k {
	case types.Bool:
		return bits&1 == 1
	case types.Int:
		return int(bits)
	case types.Int8:
		return int8(bits)
	case types.Int16:
		return int16(bits)
	case types.Int32:
		return int32(bits)
	case types.Int64:
		return int64(bits)
	case types.Uint:
		return uint(bits)
	case types.Uint8:
		return uint8(bits)
	case types.Uint16:
		return uint16(bits)
	case types.Uint32:
		return uint32(bits)
	case types.Uint64:
		return bits
	case types.Uintptr:
		return uintptr(bits)
	case types.Float32:
		return math.Float32frombits(uint32(bits))
	case types.Float64:
		return math.Float64frombits(bits)
	}
	panic(fmt.Sprintf("concreteOf(%v)", k))
}

// mk boxes a term as a value of kind k: concrete if the term folded.
func (i *interpreter) mk(k types.BasicKind, t *Term) value {
	if t.IsConst() {
		return concreteOf(k, t.Val)
	}
	return &SV{K: k, T: t}
}

func (i *interpreter) mkBool(t *Term) value { return i.mk(types.Bool, t) }

func (i *interpreter) andValue(a, b value) value {
	if a == true {
		return b
	}
	if b == true {
		return a
	}
	if a == false || b == false {
		return false
	}
	return i.mkBool(i.tt.And(i.term(a), i.term(b)))
}

func (i *interpreter) scalarEq(x, y value) value {
	k := kindOf(x)
	tx, ty := i.term(x), i.term(y)
	if kindIsFloat(k) {
		return i.mkBool(i.tt.FCmp(OFEq, tx, ty))
	}
	return i.mkBool(i.tt.Eq(tx, ty))
}

// ------------------------------------------------------------------ strings

func strBytes(v value) []value {
	switch v := v.(type) {
	case string:
		b := make([]value, len(v))
		for k := 0; k < len(v); k++ {
			b[k] = v[k]
		}
		return b
	case *SStr:
		return v.B
	}
	panic(fmt.Sprintf("strBytes(%T)", v))
}

func strLen(v value) int {
	switch v := v.(type) {
	case string:
		return len(v)
	case *SStr:
		return len(v.B)
	}
	panic(fmt.Sprintf("strLen(%T)", v))
}

// mkStr builds a string value from bytes (string if all concrete).
func mkStr(bs []value) value {
	allc := true
	for _, b := range bs {
		if _, ok := b.(uint8); !ok {
			allc = false
			break
		}
	}
	if allc {
		buf := make([]byte, len(bs))
		for k, b := range bs {
			buf[k] = b.(uint8)
		}
		return string(buf)
	}
	return &SStr{B: append([]value(nil), bs...)}
}

func (i *interpreter) strEq(x, y value) value {
	xb, yb := strBytes(x), strBytes(y)
	if len(xb) != len(yb) {
		return false
	}
	acc := i.tt.Bool(true)
	for k := range xb {
		acc = i.tt.And(acc, i.tt.Eq(i.term(xb[k]), i.term(yb[k])))
		if acc.IsConst() && acc.Val == 0 {
			return false
		}
	}
	return i.mkBool(acc)
}

// strLess returns x < y (strict) or x <= y as a term.
func (i *interpreter) strLess(x, y value, orEqual bool) *Term {
	xb, yb := strBytes(x), strBytes(y)
	n := len(xb)
	if len(yb) < n {
		n = len(yb)
	}
	// base: all common bytes equal -> decided by length
	var res *Term
	if orEqual {
		res = i.tt.Bool(len(xb) <= len(yb))
	} else {
		res = i.tt.Bool(len(xb) < len(yb))
	}
	for k := n - 1; k >= 0; k-- {
		a, b := i.term(xb[k]), i.term(yb[k])
		res = i.tt.Ite(i.tt.Cmp(OUlt, a, b), i.tt.Bool(true),
			i.tt.Ite(i.tt.Eq(a, b), res, i.tt.Bool(false)))
	}
	return res
}

// ------------------------------------------------------------------ binop

func (i *interpreter) symBinop(op token.Token, t types.Type, x, y value) value {
	tt := i.tt
	// strings
	_, xs := x.(*SStr)
	_, ys := y.(*SStr)
	if xs || ys {
		switch op {
		case token.ADD:
			return mkStr(append(append([]value(nil), strBytes(x)...), strBytes(y)...))
		case token.EQL:
			return i.strEq(x, y)
		case token.NEQ:
			return i.notValue(i.strEq(x, y))
		case token.LSS:
			return i.mkBool(i.strLess(x, y, false))
		case token.LEQ:
			return i.mkBool(i.strLess(x, y, true))
		case token.GTR:
			return i.mkBool(i.strLess(y, x, false))
		case token.GEQ:
			return i.mkBool(i.strLess(y, x, true))
		}
		panic(unsupported("string binop " + op.String()))
	}
	if op == token.EQL {
		return symEquals(i, t, x, y)
	}
	if op == token.NEQ {
		return i.notValue(symEquals(i, t, x, y))
	}
	k := kindOf(x)
	tx := i.term(x)
	switch {
	case k == types.Bool:
		panic(unsupported("bool binop " + op.String()))
	case kindIsFloat(k):
		ty := i.term(y)
		switch op {
		case token.ADD:
			return i.mk(k, tt.FBin(OFAdd, tx, ty))
		case token.SUB:
			return i.mk(k, tt.FBin(OFSub, tx, ty))
		case token.MUL:
			return i.mk(k, tt.FBin(OFMul, tx, ty))
		case token.QUO:
			return i.mk(k, tt.FBin(OFDiv, tx, ty))
		case token.LSS:
			return i.mkBool(tt.FCmp(OFLt, tx, ty))
		case token.LEQ:
			return i.mkBool(tt.FCmp(OFLe, tx, ty))
		case token.GTR:
			return i.mkBool(tt.FCmp(OFLt, ty, tx))
		case token.GEQ:
			return i.mkBool(tt.FCmp(OFLe, ty, tx))
		}
	case kindIsInt(k):
		signed := kindSigned(k)
		w := kindWidth(k)
		if op == token.SHL || op == token.SHR {
			ky := kindOf(y)
			ty := i.term(y)
			if kindSigned(ky) {
				neg := tt.Cmp(OSlt, ty, tt.Const(ty.S, 0))
				if i.decide(neg, "negative shift amount") {
					panic(targetRuntimeError("negative shift amount"))
				}
			}
			wy := kindWidth(ky)
			// saturating count in the width of x
			var cnt *Term
			var big *Term
			if wy > w {
				big = tt.Cmp(OUle, tt.Const(ty.S, uint64(w)), ty)
				cnt = tt.Extract(ty, w-1, 0)
			} else {
				cnt = tt.ZExt(ty, w)
				big = tt.Cmp(OUle, tt.Const(BV(w), uint64(w)), cnt)
			}
			var sh, fill *Term
			switch {
			case op == token.SHL:
				sh = tt.BinBV(OShl, tx, cnt)
				fill = tt.Const(BV(w), 0)
			case signed:
				sh = tt.BinBV(OAShr, tx, cnt)
				fill = tt.BinBV(OAShr, tx, tt.Const(BV(w), uint64(w-1)))
			default:
				sh = tt.BinBV(OLShr, tx, cnt)
				fill = tt.Const(BV(w), 0)
			}
			return i.mk(k, tt.Ite(big, fill, sh))
		}
		ty := i.term(y)
		switch op {
		case token.ADD:
			return i.mk(k, tt.BinBV(OAdd, tx, ty))
		case token.SUB:
			return i.mk(k, tt.BinBV(OSub, tx, ty))
		case token.MUL:
			return i.mk(k, tt.BinBV(OMul, tx, ty))
		case token.QUO, token.REM:
			if i.decide(tt.Eq(ty, tt.Const(ty.S, 0)), "integer divide by zero") {
				panic(targetRuntimeError("integer divide by zero"))
			}
			var o Op
			switch {
			case op == token.QUO && signed:
				o = OSDiv
			case op == token.QUO:
				o = OUDiv
			case signed:
				o = OSRem
			default:
				o = OURem
			}
			return i.mk(k, tt.BinBV(o, tx, ty))
		case token.AND:
			return i.mk(k, tt.BinBV(OAnd, tx, ty))
		case token.OR:
			return i.mk(k, tt.BinBV(OOr, tx, ty))
		case token.XOR:
			return i.mk(k, tt.BinBV(OXor, tx, ty))
		case token.AND_NOT:
			return i.mk(k, tt.BinBV(OAnd, tx, tt.NotBV(ty)))
		case token.LSS:
			if signed {
				return i.mkBool(tt.Cmp(OSlt, tx, ty))
			}
			return i.mkBool(tt.Cmp(OUlt, tx, ty))
		case token.LEQ:
			if signed {
				return i.mkBool(tt.Cmp(OSle, tx, ty))
			}
			return i.mkBool(tt.Cmp(OUle, tx, ty))
		case token.GTR:
			if signed {
				return i.mkBool(tt.Cmp(OSlt, ty, tx))
			}
			return i.mkBool(tt.Cmp(OUlt, ty, tx))
		case token.GEQ:
			if signed {
				return i.mkBool(tt.Cmp(OSle, ty, tx))
			}
			return i.mkBool(tt.Cmp(OUle, ty, tx))
		}
	}
	panic(unsupported(fmt.Sprintf("symbolic binop %T %s %T", x, op, y)))
}

func (i *interpreter) notValue(v value) value {
	switch v := v.(type) {
	case bool:
		return !v
	case *SV:
		return i.mkBool(i.tt.Not(v.T))
	}
	panic("notValue")
}

func (i *interpreter) symUnop(op token.Token, x *SV) value {
	switch op {
	case token.SUB:
		if kindIsFloat(x.K) {
			return i.mk(x.K, i.tt.FNeg(x.T))
		}
		return i.mk(x.K, i.tt.NegBV(x.T))
	case token.NOT:
		return i.mkBool(i.tt.Not(x.T))
	case token.XOR:
		return i.mk(x.K, i.tt.NotBV(x.T))
	}
	panic(unsupported("symbolic unop " + op.String()))
}

// ------------------------------------------------------------------ conversions

// symConvScalar converts symbolic scalar x to basic kind dst (Go semantics,
// amd64 behaviour for float->int; see DESIGN.md Appendix A).
func (i *interpreter) symConvScalar(dst types.BasicKind, x *SV) value {
	tt := i.tt
	src := x.K
	switch {
	case kindIsInt(src) && kindIsInt(dst):
		w := kindWidth(dst)
		if kindSigned(src) {
			return i.mk(dst, tt.SExt(x.T, w))
		}
		return i.mk(dst, tt.ZExt(x.T, w))
	case kindIsInt(src) && kindIsFloat(dst):
		return i.mk(dst, tt.IntToFP(x.T, kindSigned(src), kindSort(dst)))
	case kindIsFloat(src) && kindIsFloat(dst):
		return i.mk(dst, tt.FToFP(x.T, kindSort(dst)))
	case kindIsFloat(src) && kindIsInt(dst):
		return i.mk(dst, i.floatToInt(x.T, dst))
	}
	panic(unsupported(fmt.Sprintf("symbolic conversion %v -> %v", src, dst)))
}

// floatToInt models the amd64 code Go generates (cmd/compile fpConvOpToSSA):
// CVTTS[SD]2S[LQ] returns the "integer indefinite" value 0x80..0 for NaN and
// for values whose truncation does not fit.
func (i *interpreter) floatToInt(f *Term, dst types.BasicKind) *Term {
	tt := i.tt
	fs := f.S
	cvt := func(f *Term, w int) *Term {
		var lo, hi *Term // lo < f (or lo <= f), f < hi
		var inRange *Term
		if w == 32 {
			hi = tt.FPConst(fs, 2147483648.0)
			if fs.W == 64 {
				lo = tt.FPConst(fs, -2147483649.0)
				inRange = tt.And(tt.FCmp(OFLt, lo, f), tt.FCmp(OFLt, f, hi))
			} else {
				lo = tt.FPConst(fs, -2147483648.0)
				inRange = tt.And(tt.FCmp(OFLe, lo, f), tt.FCmp(OFLt, f, hi))
			}
		} else {
			hi = tt.FPConst(fs, 9223372036854775808.0)
			lo = tt.FPConst(fs, -9223372036854775808.0)
			inRange = tt.And(tt.FCmp(OFLe, lo, f), tt.FCmp(OFLt, f, hi))
		}
		indef := tt.Const(BV(w), uint64(1)<<uint(w-1))
		return tt.Ite(inRange, tt.FToSBVRaw(f, w), indef)
	}
	switch dst {
	case types.Int8, types.Int16, types.Uint8, types.Uint16:
		return tt.Extract(cvt(f, 32), kindWidth(dst)-1, 0)
	case types.Int32:
		return cvt(f, 32)
	case types.Int, types.Int64:
		return cvt(f, 64)
	case types.Uint32:
		return tt.Extract(cvt(f, 64), 31, 0)
	case types.Uint, types.Uint64, types.Uintptr:
		two63 := tt.FPConst(fs, 9223372036854775808.0)
		small := tt.FCmp(OFLt, f, two63)
		a := cvt(f, 64)
		b := tt.BinBV(OXor, cvt(tt.FBin(OFSub, f, two63), 64), tt.Const(BV(64), 1<<63))
		return tt.Ite(small, a, b)
	}
	panic(unsupported(fmt.Sprintf("floatToInt -> %v", dst)))
}

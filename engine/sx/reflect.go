// Derived in part from golang.org/x/tools/go/ssa/interp (BSD license).

package sx

// Emulated "reflect" package: a model over go/types.  reflect.Type is the
// interface value iface{rtypeType, rtype{T}}; reflect.Value is the struct
// {t rtype, v value, a *value} where a (if non-nil) is the address the value
// lives at (so that Set works).  This model is part of the trusted base of
// every check that runs ggql's reflection strategy.

import (
	"fmt"
	"go/token"
	"go/types"
	"reflect"
	"sort"
	"unsafe"

	"golang.org/x/tools/go/ssa"
)

type opaqueType struct {
	types.Type
	name string
}

func (t *opaqueType) String() string { return t.name }

var reflectTypesPackage = types.NewPackage("reflect", "reflect")

var rtypeType = makeNamedType("rtype", &opaqueType{nil, "rtype"})

var errorType = makeNamedType("error", &opaqueType{nil, "error"})

func makeNamedType(name string, underlying types.Type) *types.Named {
	obj := types.NewTypeName(token.NoPos, reflectTypesPackage, name, nil)
	return types.NewNamed(obj, underlying, nil)
}

func makeReflectValue(t types.Type, v value) value {
	return structure{rtype{t}, v, (*value)(nil)}
}

func makeReflectLValue(t types.Type, addr *value) value {
	return structure{rtype{t}, *addr, addr}
}

func invalidReflectValue() value {
	return structure{iface{}, iface{}, (*value)(nil)}
}

func rvValid(v value) bool {
	_, ok := v.(structure)[0].(rtype)
	return ok
}

// Given a reflect.Value, returns its rtype.
func rV2T(v value) rtype {
	rt, ok := v.(structure)[0].(rtype)
	if !ok {
		panic(targetPanic{iface{errorType, "reflect: call of reflect.Value method on zero Value"}})
	}
	return rt
}

// Given a reflect.Value, returns the underlying interpreter value.
func rV2V(v value) value {
	s := v.(structure)
	if a, _ := s[2].(*value); a != nil {
		return *a
	}
	return s[1]
}

func makeReflectType(rt rtype) value {
	return iface{rtypeType, rt}
}

func argType(v value) types.Type {
	x := v.(iface)
	if x.t == nil {
		panic(targetRuntimeError("invalid memory address or nil pointer dereference (nil reflect.Type)"))
	}
	return x.v.(rtype).t
}

func reflectPanic(msg string) {
	panic(targetPanic{iface{errorType, msg}})
}

func ext۰reflect۰rtype۰Bits(fr *frame, args []value) value {
	rt := args[0].(rtype).t
	basic, ok := rt.Underlying().(*types.Basic)
	if !ok {
		reflectPanic(fmt.Sprintf("reflect.Type.Bits(%T): non-basic type", rt))
	}
	return int(fr.i.sizes.Sizeof(basic)) * 8
}

func ext۰reflect۰rtype۰Elem(fr *frame, args []value) value {
	e, ok := args[0].(rtype).t.Underlying().(interface{ Elem() types.Type })
	if !ok {
		reflectPanic("reflect: Elem of invalid type " + args[0].(rtype).t.String())
	}
	return makeReflectType(rtype{e.Elem()})
}

func structFieldValue(st *types.Struct, i int) value {
	f := st.Field(i)
	pkgPath := ""
	if !f.Exported() && f.Pkg() != nil {
		pkgPath = f.Pkg().Path()
	}
	return structure{
		f.Name(),
		pkgPath,
		makeReflectType(rtype{f.Type()}),
		st.Tag(i),
		uintptr(0),
		[]value{i},
		f.Anonymous(),
	}
}

func ext۰reflect۰rtype۰Field(fr *frame, args []value) value {
	st := args[0].(rtype).t.Underlying().(*types.Struct)
	return structFieldValue(st, int(asInt64(args[1])))
}

func zeroStructField() value {
	return structure{"", "", iface{}, "", uintptr(0), []value(nil), false}
}

func ext۰reflect۰rtype۰FieldByNameFunc(fr *frame, args []value) value {
	st, ok := args[0].(rtype).t.Underlying().(*types.Struct)
	if !ok {
		reflectPanic("reflect: FieldByNameFunc of non-struct type " + args[0].(rtype).t.String())
	}
	// (embedded promotion is not modelled: only direct fields)
	found := -1
	for k := 0; k < st.NumFields(); k++ {
		if fr.i.truth(call(fr.i, fr, 0, args[1], []value{st.Field(k).Name()})) {
			if found >= 0 {
				return tuple{zeroStructField(), false}
			}
			found = k
		}
	}
	if found < 0 {
		return tuple{zeroStructField(), false}
	}
	return tuple{structFieldValue(st, found), true}
}

func ext۰reflect۰rtype۰FieldByName(fr *frame, args []value) value {
	st, ok := args[0].(rtype).t.Underlying().(*types.Struct)
	if !ok {
		reflectPanic("reflect: FieldByName of non-struct type " + args[0].(rtype).t.String())
	}
	name := concreteString(args[1])
	for k := 0; k < st.NumFields(); k++ {
		if st.Field(k).Name() == name {
			return tuple{structFieldValue(st, k), true}
		}
	}
	return tuple{zeroStructField(), false}
}

func ext۰reflect۰rtype۰In(fr *frame, args []value) value {
	i := int(asInt64(args[1]))
	return makeReflectType(rtype{args[0].(rtype).t.Underlying().(*types.Signature).Params().At(i).Type()})
}

func ext۰reflect۰rtype۰Kind(fr *frame, args []value) value {
	return uint(reflectKind(args[0].(rtype).t))
}

func ext۰reflect۰rtype۰NumField(fr *frame, args []value) value {
	return args[0].(rtype).t.Underlying().(*types.Struct).NumFields()
}

func ext۰reflect۰rtype۰NumIn(fr *frame, args []value) value {
	return args[0].(rtype).t.Underlying().(*types.Signature).Params().Len()
}

// exportedMethods returns the exported methods of t sorted by name (as reflect does).
func exportedMethods(i *interpreter, t types.Type) []*types.Selection {
	ms := i.prog.MethodSets.MethodSet(t)
	var out []*types.Selection
	for k := 0; k < ms.Len(); k++ {
		if ms.At(k).Obj().Exported() {
			out = append(out, ms.At(k))
		}
	}
	sort.Slice(out, func(a, b int) bool { return out[a].Obj().Name() < out[b].Obj().Name() })
	return out
}

func ext۰reflect۰rtype۰NumMethod(fr *frame, args []value) value {
	t := args[0].(rtype).t
	if it, ok := t.Underlying().(*types.Interface); ok {
		return it.NumMethods()
	}
	return len(exportedMethods(fr.i, t))
}

func ext۰reflect۰rtype۰Method(fr *frame, args []value) value {
	t := args[0].(rtype).t
	k := int(asInt64(args[1]))
	ms := exportedMethods(fr.i, t)
	if k < 0 || k >= len(ms) {
		reflectPanic("reflect: Method index out of range")
	}
	sel := ms[k]
	fn := fr.i.prog.MethodValue(sel)
	// function type with the receiver as first parameter
	sig := sel.Type().(*types.Signature)
	params := []*types.Var{types.NewVar(token.NoPos, nil, "recv", t)}
	for n := 0; n < sig.Params().Len(); n++ {
		params = append(params, sig.Params().At(n))
	}
	ft := types.NewSignatureType(nil, nil, nil, types.NewTuple(params...), sig.Results(), sig.Variadic())
	return structure{
		sel.Obj().Name(),
		"",
		makeReflectType(rtype{ft}),
		makeReflectValue(ft, fn),
		k,
	}
}

func ext۰reflect۰rtype۰NumOut(fr *frame, args []value) value {
	return args[0].(rtype).t.Underlying().(*types.Signature).Results().Len()
}

func ext۰reflect۰rtype۰Out(fr *frame, args []value) value {
	i := int(asInt64(args[1]))
	return makeReflectType(rtype{args[0].(rtype).t.Underlying().(*types.Signature).Results().At(i).Type()})
}

func ext۰reflect۰rtype۰Size(fr *frame, args []value) value {
	return uintptr(fr.i.sizes.Sizeof(args[0].(rtype).t))
}

func ext۰reflect۰rtype۰String(fr *frame, args []value) value {
	return goTypeString(args[0].(rtype).t)
}

func ext۰reflect۰rtype۰Name(fr *frame, args []value) value {
	switch t := types.Unalias(args[0].(rtype).t).(type) {
	case *types.Named:
		return t.Obj().Name()
	case *types.Basic:
		return t.Name()
	}
	return ""
}

func ext۰reflect۰rtype۰PkgPath(fr *frame, args []value) value {
	if t, ok := types.Unalias(args[0].(rtype).t).(*types.Named); ok && t.Obj().Pkg() != nil {
		return t.Obj().Pkg().Path()
	}
	return ""
}

func ext۰reflect۰rtype۰AssignableTo(fr *frame, args []value) value {
	return types.AssignableTo(args[0].(rtype).t, argType(args[1]))
}

func ext۰reflect۰rtype۰ConvertibleTo(fr *frame, args []value) value {
	return types.ConvertibleTo(args[0].(rtype).t, argType(args[1]))
}

func ext۰reflect۰rtype۰Implements(fr *frame, args []value) value {
	it, ok := argType(args[1]).Underlying().(*types.Interface)
	if !ok {
		reflectPanic("reflect: non-interface type passed to Type.Implements")
	}
	return types.Implements(args[0].(rtype).t, it)
}

func ext۰reflect۰rtype۰Comparable(fr *frame, args []value) value {
	return types.Comparable(args[0].(rtype).t)
}

func ext۰reflect۰New(fr *frame, args []value) value {
	t := argType(args[0])
	alloc := zero(t)
	return makeReflectValue(types.NewPointer(t), &alloc)
}

func ext۰reflect۰MakeSlice(fr *frame, args []value) value {
	t := argType(args[0])
	st, ok := t.Underlying().(*types.Slice)
	if !ok {
		reflectPanic("reflect.MakeSlice of non-slice type")
	}
	l, c := int(fr.i.asInt(args[1])), int(fr.i.asInt(args[2]))
	if l < 0 || c < l {
		reflectPanic("reflect.MakeSlice: bad len/cap")
	}
	s := make([]value, c)
	for k := range s {
		s[k] = zero(st.Elem())
	}
	return makeReflectValue(t, s[:l])
}

func ext۰reflect۰SliceOf(fr *frame, args []value) value {
	return makeReflectType(rtype{types.NewSlice(argType(args[0]))})
}

func ext۰reflect۰PtrTo(fr *frame, args []value) value {
	return makeReflectType(rtype{types.NewPointer(argType(args[0]))})
}

func ext۰reflect۰TypeOf(fr *frame, args []value) value {
	x := args[0].(iface)
	if x.t == nil {
		return iface{}
	}
	return makeReflectType(rtype{x.t})
}

func ext۰reflect۰ValueOf(fr *frame, args []value) value {
	itf := args[0].(iface)
	if itf.t == nil {
		return invalidReflectValue()
	}
	return makeReflectValue(itf.t, itf.v)
}

func ext۰reflect۰Zero(fr *frame, args []value) value {
	t := argType(args[0])
	return makeReflectValue(t, zero(t))
}

func reflectKind(t types.Type) reflect.Kind {
	switch t := t.(type) {
	case *types.Named, *types.Alias:
		return reflectKind(t.Underlying())
	case *types.Basic:
		switch t.Kind() {
		case types.Bool:
			return reflect.Bool
		case types.Int:
			return reflect.Int
		case types.Int8:
			return reflect.Int8
		case types.Int16:
			return reflect.Int16
		case types.Int32:
			return reflect.Int32
		case types.Int64:
			return reflect.Int64
		case types.Uint:
			return reflect.Uint
		case types.Uint8:
			return reflect.Uint8
		case types.Uint16:
			return reflect.Uint16
		case types.Uint32:
			return reflect.Uint32
		case types.Uint64:
			return reflect.Uint64
		case types.Uintptr:
			return reflect.Uintptr
		case types.Float32:
			return reflect.Float32
		case types.Float64:
			return reflect.Float64
		case types.Complex64:
			return reflect.Complex64
		case types.Complex128:
			return reflect.Complex128
		case types.String:
			return reflect.String
		case types.UnsafePointer:
			return reflect.UnsafePointer
		}
	case *types.Array:
		return reflect.Array
	case *types.Chan:
		return reflect.Chan
	case *types.Signature:
		return reflect.Func
	case *types.Interface:
		return reflect.Interface
	case *types.Map:
		return reflect.Map
	case *types.Pointer:
		return reflect.Ptr
	case *types.Slice:
		return reflect.Slice
	case *types.Struct:
		return reflect.Struct
	}
	panic(fmt.Sprint("unexpected type: ", t))
}

func ext۰reflect۰Value۰Kind(fr *frame, args []value) value {
	if !rvValid(args[0]) {
		return uint(reflect.Invalid)
	}
	return uint(reflectKind(rV2T(args[0]).t))
}

func ext۰reflect۰Value۰String(fr *frame, args []value) value {
	if !rvValid(args[0]) {
		return "<invalid Value>"
	}
	switch v := rV2V(args[0]).(type) {
	case string, *SStr:
		return v
	}
	return "<" + goTypeString(rV2T(args[0]).t) + " Value>"
}

func ext۰reflect۰Value۰Type(fr *frame, args []value) value {
	return makeReflectType(rV2T(args[0]))
}

func ext۰reflect۰Value۰Uint(fr *frame, args []value) value {
	v := rV2V(args[0])
	switch kindOf(v) {
	case types.Uint, types.Uint8, types.Uint16, types.Uint32, types.Uint64, types.Uintptr:
		return convScalar(fr.i, types.Uint64, v)
	}
	reflectPanic("reflect: call of reflect.Value.Uint on non-uint Value")
	return nil
}

func convScalar(i *interpreter, dst types.BasicKind, v value) value {
	if sv, ok := v.(*SV); ok {
		return i.symConvScalar(dst, sv)
	}
	return conv(i, types.Typ[dst], types.Typ[kindOf(v)], v)
}

func ext۰reflect۰Value۰Len(fr *frame, args []value) value {
	switch v := rV2V(args[0]).(type) {
	case string:
		return len(v)
	case *SStr:
		return len(v.B)
	case array:
		return len(v)
	case []value:
		return len(v)
	case *omap:
		return v.len()
	default:
		reflectPanic(fmt.Sprintf("reflect: call of reflect.Value.Len on %s Value", rV2T(args[0]).t))
	}
	return nil
}

func ext۰reflect۰Value۰MapIndex(fr *frame, args []value) value {
	tValue := rV2T(args[0]).t.Underlying().(*types.Map).Elem()
	k := rV2V(args[1])
	m := rV2V(args[0]).(*omap)
	if v, ok := m.lookup(fr.i, k); ok {
		return makeReflectValue(tValue, v)
	}
	return invalidReflectValue()
}

func ext۰reflect۰Value۰MapKeys(fr *frame, args []value) value {
	var keys []value
	tKey := rV2T(args[0]).t.Underlying().(*types.Map).Key()
	m := rV2V(args[0]).(*omap)
	if m != nil {
		for _, k := range m.keys {
			keys = append(keys, makeReflectValue(tKey, k))
		}
	}
	return keys
}

func ext۰reflect۰Value۰NumField(fr *frame, args []value) value {
	return len(rV2V(args[0]).(structure))
}

func ext۰reflect۰Value۰NumMethod(fr *frame, args []value) value {
	return len(exportedMethods(fr.i, rV2T(args[0]).t))
}

func ext۰reflect۰Value۰Pointer(fr *frame, args []value) value {
	switch v := rV2V(args[0]).(type) {
	case *value:
		return uintptr(unsafe.Pointer(v))
	case *ssa.Function:
		return uintptr(unsafe.Pointer(v))
	case *closure:
		return uintptr(unsafe.Pointer(v))
	default:
		panic(unsupported(fmt.Sprintf("reflect.(Value).Pointer(%T)", v)))
	}
}

func ext۰reflect۰Value۰Index(fr *frame, args []value) value {
	k := int(fr.i.asInt(args[1]))
	t := rV2T(args[0]).t.Underlying()
	switch v := rV2V(args[0]).(type) {
	case array:
		if k < 0 || k >= len(v) {
			reflectPanic("reflect: array index out of range")
		}
		return makeReflectLValue(t.(*types.Array).Elem(), &v[k])
	case []value:
		if k < 0 || k >= len(v) {
			reflectPanic("reflect: slice index out of range")
		}
		return makeReflectLValue(t.(*types.Slice).Elem(), &v[k])
	case string, *SStr:
		return makeReflectValue(types.Typ[types.Uint8], fr.i.indexString(v, k))
	default:
		reflectPanic(fmt.Sprintf("reflect: call of reflect.Value.Index on %s Value", rV2T(args[0]).t))
	}
	return nil
}

func ext۰reflect۰Value۰Bool(fr *frame, args []value) value {
	v := rV2V(args[0])
	if kindOf(v) != types.Bool {
		reflectPanic("reflect: call of reflect.Value.Bool on non-bool Value")
	}
	return v
}

func ext۰reflect۰Value۰CanAddr(fr *frame, args []value) value {
	a, _ := args[0].(structure)[2].(*value)
	return a != nil
}

func ext۰reflect۰Value۰CanSet(fr *frame, args []value) value {
	a, _ := args[0].(structure)[2].(*value)
	return a != nil
}

func ext۰reflect۰Value۰CanInterface(fr *frame, args []value) value {
	return true
}

func ext۰reflect۰Value۰Elem(fr *frame, args []value) value {
	if !rvValid(args[0]) {
		reflectPanic("reflect: call of reflect.Value.Elem on zero Value")
	}
	switch x := rV2V(args[0]).(type) {
	case iface:
		if x.t == nil {
			return invalidReflectValue()
		}
		return makeReflectValue(x.t, x.v)
	case *value:
		pt, ok := rV2T(args[0]).t.Underlying().(*types.Pointer)
		if !ok {
			reflectPanic("reflect: call of reflect.Value.Elem on " + rV2T(args[0]).t.String() + " Value")
		}
		if x == nil {
			return invalidReflectValue()
		}
		return makeReflectLValue(pt.Elem(), x)
	default:
		reflectPanic(fmt.Sprintf("reflect: call of reflect.Value.Elem on %s Value", rV2T(args[0]).t))
	}
	return nil
}

func reflectStructField(v value, k int) value {
	st := rV2T(v).t.Underlying().(*types.Struct)
	s := v.(structure)
	if a, _ := s[2].(*value); a != nil {
		return makeReflectLValue(st.Field(k).Type(), &(*a).(structure)[k])
	}
	return makeReflectValue(st.Field(k).Type(), rV2V(v).(structure)[k])
}

func ext۰reflect۰Value۰Field(fr *frame, args []value) value {
	return reflectStructField(args[0], int(asInt64(args[1])))
}

func ext۰reflect۰Value۰FieldByName(fr *frame, args []value) value {
	st, ok := rV2T(args[0]).t.Underlying().(*types.Struct)
	if !ok {
		reflectPanic("reflect: call of reflect.Value.FieldByName on " + rV2T(args[0]).t.String() + " Value")
	}
	name := concreteString(args[1])
	for k := 0; k < st.NumFields(); k++ {
		if st.Field(k).Name() == name {
			return reflectStructField(args[0], k)
		}
	}
	return invalidReflectValue()
}

func ext۰reflect۰Value۰FieldByNameFunc(fr *frame, args []value) value {
	st, ok := rV2T(args[0]).t.Underlying().(*types.Struct)
	if !ok {
		reflectPanic("reflect: call of reflect.Value.FieldByNameFunc on " + rV2T(args[0]).t.String() + " Value")
	}
	found := -1
	for k := 0; k < st.NumFields(); k++ {
		if fr.i.truth(call(fr.i, fr, 0, args[1], []value{st.Field(k).Name()})) {
			if found >= 0 {
				return invalidReflectValue()
			}
			found = k
		}
	}
	if found < 0 {
		return invalidReflectValue()
	}
	return reflectStructField(args[0], found)
}

func ext۰reflect۰Value۰Float(fr *frame, args []value) value {
	v := rV2V(args[0])
	switch kindOf(v) {
	case types.Float32, types.Float64:
		return convScalar(fr.i, types.Float64, v)
	}
	reflectPanic("reflect: call of reflect.Value.Float on non-float Value")
	return nil
}

func ext۰reflect۰Value۰Interface(fr *frame, args []value) value {
	return ext۰reflect۰valueInterface(fr, args)
}

func ext۰reflect۰Value۰Int(fr *frame, args []value) value {
	v := rV2V(args[0])
	switch kindOf(v) {
	case types.Int, types.Int8, types.Int16, types.Int32, types.Int64:
		return convScalar(fr.i, types.Int64, v)
	}
	reflectPanic("reflect: call of reflect.Value.Int on non-int Value")
	return nil
}

func ext۰reflect۰Value۰IsNil(fr *frame, args []value) value {
	switch x := rV2V(args[0]).(type) {
	case *value:
		return x == nil
	case *omap:
		return x == nil
	case iface:
		return x.t == nil
	case []value:
		return x == nil
	case *ssa.Function:
		return x == nil
	case *ssa.Builtin:
		return x == nil
	case *closure:
		return x == nil
	default:
		reflectPanic(fmt.Sprintf("reflect: call of reflect.Value.IsNil on %s Value", rV2T(args[0]).t))
	}
	return nil
}

func ext۰reflect۰Value۰IsValid(fr *frame, args []value) value {
	return rvValid(args[0])
}

func ext۰reflect۰Value۰IsZero(fr *frame, args []value) value {
	t := rV2T(args[0]).t
	return equalsOrNil(fr.i, t, rV2V(args[0]), zero(t))
}

func equalsOrNil(i *interpreter, t types.Type, x, y value) value {
	switch t.Underlying().(type) {
	case *types.Map, *types.Signature, *types.Slice:
		return eqnil(i, t, x, y)
	}
	return symEquals(i, t, x, y)
}

func reflectAssign(i *interpreter, dst types.Type, v value) value {
	srcT := rV2T(v).t
	if !types.AssignableTo(srcT, dst) {
		reflectPanic("reflect.Set: value of type " + goTypeString(srcT) + " is not assignable to type " + goTypeString(dst))
	}
	x := rV2V(v)
	if _, ok := dst.Underlying().(*types.Interface); ok {
		if _, isI := srcT.Underlying().(*types.Interface); !isI {
			return iface{t: srcT, v: x}
		}
	}
	return x
}

func ext۰reflect۰Value۰Set(fr *frame, args []value) value {
	a, _ := args[0].(structure)[2].(*value)
	if a == nil {
		reflectPanic("reflect: reflect.Value.Set using unaddressable value")
	}
	if !rvValid(args[1]) {
		reflectPanic("reflect: call of reflect.Value.Set on zero Value")
	}
	dst := rV2T(args[0]).t
	store(dst, a, reflectAssign(fr.i, dst, args[1]))
	return nil
}

func reflectSetScalar(fr *frame, args []value, want func(types.BasicKind) bool, name string) value {
	a, _ := args[0].(structure)[2].(*value)
	if a == nil {
		reflectPanic("reflect: reflect.Value." + name + " using unaddressable value")
	}
	b, ok := rV2T(args[0]).t.Underlying().(*types.Basic)
	if !ok || !want(b.Kind()) {
		reflectPanic("reflect: call of reflect.Value." + name + " on " + goTypeString(rV2T(args[0]).t) + " Value")
	}
	*a = convScalar(fr.i, b.Kind(), args[1])
	return nil
}

func ext۰reflect۰Value۰SetInt(fr *frame, args []value) value {
	return reflectSetScalar(fr, args, kindSigned, "SetInt")
}

func ext۰reflect۰Value۰SetUint(fr *frame, args []value) value {
	return reflectSetScalar(fr, args, func(k types.BasicKind) bool { return kindIsInt(k) && !kindSigned(k) }, "SetUint")
}

func ext۰reflect۰Value۰SetFloat(fr *frame, args []value) value {
	return reflectSetScalar(fr, args, kindIsFloat, "SetFloat")
}

func ext۰reflect۰Value۰SetBool(fr *frame, args []value) value {
	return reflectSetScalar(fr, args, func(k types.BasicKind) bool { return k == types.Bool }, "SetBool")
}

func ext۰reflect۰Value۰SetString(fr *frame, args []value) value {
	a, _ := args[0].(structure)[2].(*value)
	if a == nil {
		reflectPanic("reflect: reflect.Value.SetString using unaddressable value")
	}
	*a = args[1]
	return nil
}

func ext۰reflect۰valueInterface(fr *frame, args []value) value {
	v := args[0].(structure)
	if !rvValid(v) {
		reflectPanic("reflect: call of reflect.Value.Interface on zero Value")
	}
	t := rV2T(v).t
	x := rV2V(v)
	if _, ok := t.Underlying().(*types.Interface); ok {
		if xi, ok := x.(iface); ok {
			return xi
		}
	}
	return iface{t, x}
}

// Value.Call: panics exactly where package reflect does (arity, zero Value,
// non-assignable argument).
func ext۰reflect۰Value۰Call(fr *frame, args []value) value {
	i := fr.i
	fv := args[0]
	if !rvValid(fv) {
		reflectPanic("reflect: call of reflect.Value.Call on zero Value")
	}
	sig, ok := rV2T(fv).t.Underlying().(*types.Signature)
	if !ok {
		reflectPanic("reflect: call of reflect.Value.Call on " + goTypeString(rV2T(fv).t) + " Value")
	}
	in := args[1].([]value)
	np := sig.Params().Len()
	if sig.Variadic() {
		if len(in) < np-1 {
			reflectPanic("reflect: Call with too few input arguments")
		}
		panic(unsupported("reflect.Value.Call of a variadic function"))
	}
	if len(in) < np {
		reflectPanic("reflect: Call with too few input arguments")
	}
	if len(in) > np {
		reflectPanic("reflect: Call with too many input arguments")
	}
	for _, a := range in {
		if !rvValid(a) {
			reflectPanic("reflect: Call using zero Value argument")
		}
	}
	cargs := make([]value, np)
	for k := 0; k < np; k++ {
		pt := sig.Params().At(k).Type()
		at := rV2T(in[k]).t
		if !types.AssignableTo(at, pt) {
			reflectPanic("reflect: Call using " + goTypeString(at) + " as type " + goTypeString(pt))
		}
		x := rV2V(in[k])
		if _, isI := pt.Underlying().(*types.Interface); isI {
			if _, srcI := at.Underlying().(*types.Interface); !srcI {
				x = iface{t: at, v: x}
			}
		}
		cargs[k] = x
	}
	fnv := rV2V(fv)
	if f, ok := fnv.(*ssa.Function); ok && f == nil {
		reflectPanic("reflect: call of nil function")
	}
	res := call(i, fr, 0, fnv, cargs)
	nr := sig.Results().Len()
	out := make([]value, nr)
	switch nr {
	case 0:
	case 1:
		out[0] = makeReflectValue(sig.Results().At(0).Type(), res)
	default:
		tup := res.(tuple)
		for k := 0; k < nr; k++ {
			out[k] = makeReflectValue(sig.Results().At(k).Type(), tup[k])
		}
	}
	return out
}

func ext۰reflect۰error۰Error(fr *frame, args []value) value {
	return args[0]
}

func ext۰reflect۰DeepEqual(fr *frame, args []value) value {
	return fr.i.deepEqual(args[0], args[1])
}

// newMethod creates a new method of the specified name, package and receiver type.
func newMethod(pkg *ssa.Package, recvType types.Type, name string) *ssa.Function {
	sig := types.NewSignature(types.NewVar(token.NoPos, nil, "recv", recvType), nil, nil, false)
	fn := pkg.Prog.NewFunction(name, sig, "fake reflect method")
	fn.Pkg = pkg
	return fn
}

var reflectExternals = map[string]externalFn{
	"(reflect.Value).Bool":            ext۰reflect۰Value۰Bool,
	"(reflect.Value).CanAddr":         ext۰reflect۰Value۰CanAddr,
	"(reflect.Value).CanSet":          ext۰reflect۰Value۰CanSet,
	"(reflect.Value).CanInterface":    ext۰reflect۰Value۰CanInterface,
	"(reflect.Value).Call":            ext۰reflect۰Value۰Call,
	"(reflect.Value).Elem":            ext۰reflect۰Value۰Elem,
	"(reflect.Value).Field":           ext۰reflect۰Value۰Field,
	"(reflect.Value).FieldByName":     ext۰reflect۰Value۰FieldByName,
	"(reflect.Value).FieldByNameFunc": ext۰reflect۰Value۰FieldByNameFunc,
	"(reflect.Value).Float":           ext۰reflect۰Value۰Float,
	"(reflect.Value).Index":           ext۰reflect۰Value۰Index,
	"(reflect.Value).Int":             ext۰reflect۰Value۰Int,
	"(reflect.Value).Interface":       ext۰reflect۰Value۰Interface,
	"(reflect.Value).IsNil":           ext۰reflect۰Value۰IsNil,
	"(reflect.Value).IsValid":         ext۰reflect۰Value۰IsValid,
	"(reflect.Value).IsZero":          ext۰reflect۰Value۰IsZero,
	"(reflect.Value).Kind":            ext۰reflect۰Value۰Kind,
	"(reflect.Value).Len":             ext۰reflect۰Value۰Len,
	"(reflect.Value).MapIndex":        ext۰reflect۰Value۰MapIndex,
	"(reflect.Value).MapKeys":         ext۰reflect۰Value۰MapKeys,
	"(reflect.Value).NumField":        ext۰reflect۰Value۰NumField,
	"(reflect.Value).NumMethod":       ext۰reflect۰Value۰NumMethod,
	"(reflect.Value).Pointer":         ext۰reflect۰Value۰Pointer,
	"(reflect.Value).Set":             ext۰reflect۰Value۰Set,
	"(reflect.Value).SetInt":          ext۰reflect۰Value۰SetInt,
	"(reflect.Value).SetUint":         ext۰reflect۰Value۰SetUint,
	"(reflect.Value).SetFloat":        ext۰reflect۰Value۰SetFloat,
	"(reflect.Value).SetBool":         ext۰reflect۰Value۰SetBool,
	"(reflect.Value).SetString":       ext۰reflect۰Value۰SetString,
	"(reflect.Value).String":          ext۰reflect۰Value۰String,
	"(reflect.Value).Type":            ext۰reflect۰Value۰Type,
	"(reflect.Value).Uint":            ext۰reflect۰Value۰Uint,
	"(reflect.error).Error":           ext۰reflect۰error۰Error,
	"(reflect.rtype).AssignableTo":    ext۰reflect۰rtype۰AssignableTo,
	"(reflect.rtype).ConvertibleTo":   ext۰reflect۰rtype۰ConvertibleTo,
	"(reflect.rtype).Implements":      ext۰reflect۰rtype۰Implements,
	"(reflect.rtype).Comparable":      ext۰reflect۰rtype۰Comparable,
	"(reflect.rtype).Bits":            ext۰reflect۰rtype۰Bits,
	"(reflect.rtype).Elem":            ext۰reflect۰rtype۰Elem,
	"(reflect.rtype).Field":           ext۰reflect۰rtype۰Field,
	"(reflect.rtype).FieldByName":     ext۰reflect۰rtype۰FieldByName,
	"(reflect.rtype).FieldByNameFunc": ext۰reflect۰rtype۰FieldByNameFunc,
	"(reflect.rtype).In":              ext۰reflect۰rtype۰In,
	"(reflect.rtype).Kind":            ext۰reflect۰rtype۰Kind,
	"(reflect.rtype).Method":          ext۰reflect۰rtype۰Method,
	"(reflect.rtype).Name":            ext۰reflect۰rtype۰Name,
	"(reflect.rtype).NumField":        ext۰reflect۰rtype۰NumField,
	"(reflect.rtype).NumIn":           ext۰reflect۰rtype۰NumIn,
	"(reflect.rtype).NumMethod":       ext۰reflect۰rtype۰NumMethod,
	"(reflect.rtype).NumOut":          ext۰reflect۰rtype۰NumOut,
	"(reflect.rtype).Out":             ext۰reflect۰rtype۰Out,
	"(reflect.rtype).PkgPath":         ext۰reflect۰rtype۰PkgPath,
	"(reflect.rtype).Size":            ext۰reflect۰rtype۰Size,
	"(reflect.rtype).String":          ext۰reflect۰rtype۰String,
	"reflect.New":                     ext۰reflect۰New,
	"reflect.MakeSlice":               ext۰reflect۰MakeSlice,
	"reflect.SliceOf":                 ext۰reflect۰SliceOf,
	"reflect.PtrTo":                   ext۰reflect۰PtrTo,
	"reflect.PointerTo":               ext۰reflect۰PtrTo,
	"reflect.TypeOf":                  ext۰reflect۰TypeOf,
	"reflect.ValueOf":                 ext۰reflect۰ValueOf,
	"reflect.Zero":                    ext۰reflect۰Zero,
	"reflect.DeepEqual":               ext۰reflect۰DeepEqual,
	"(reflect.Kind).String":           func(fr *frame, args []value) value { return reflect.Kind(asInt64(args[0])).String() },
}

var rtypeMethodNames = []string{"AssignableTo", "ConvertibleTo", "Implements", "Comparable", "Bits", "Elem", "Field",
	"FieldByName", "FieldByNameFunc", "In", "Kind", "Method", "Name", "NumField", "NumIn", "NumMethod", "NumOut",
	"Out", "PkgPath", "Size", "String"}

var reflectFake struct {
	done bool
}

func initReflect(i *interpreter) {
	i.reflectPackage = i.P.reflectPkg()
	i.rtypeMethods = i.P.rtypeMethods
	i.errorMethods = i.P.errorMethods
}

// prepareReflect clobbers the type-checker's notion of reflect.Value's
// underlying type so that it matches the model (once per Program).
func (P *Program) prepareReflect() {
	P.reflectPackage = &ssa.Package{
		Prog:    P.Prog,
		Pkg:     reflectTypesPackage,
		Members: make(map[string]ssa.Member),
	}
	if r := P.Prog.ImportedPackage("reflect"); r != nil {
		rV := r.Pkg.Scope().Lookup("Value").Type().(*types.Named)

		// delete bodies of the old methods
		mset := P.Prog.MethodSets.MethodSet(rV)
		for j := 0; j < mset.Len(); j++ {
			P.Prog.MethodValue(mset.At(j)).Blocks = nil
		}
		pmset := P.Prog.MethodSets.MethodSet(types.NewPointer(rV))
		for j := 0; j < pmset.Len(); j++ {
			if f := P.Prog.MethodValue(pmset.At(j)); f != nil && f.Synthetic == "" {
				f.Blocks = nil
			}
		}

		tEface := types.NewInterface(nil, nil).Complete()
		rV.SetUnderlying(types.NewStruct([]*types.Var{
			types.NewField(token.NoPos, r.Pkg, "t", tEface, false), // a lie
			types.NewField(token.NoPos, r.Pkg, "v", tEface, false),
			types.NewField(token.NoPos, r.Pkg, "a", types.NewPointer(tEface), false),
		}, nil))
	}
	P.rtypeMethods = methodSet{}
	for _, n := range rtypeMethodNames {
		P.rtypeMethods[n] = newMethod(P.reflectPackage, rtypeType, n)
	}
	P.errorMethods = methodSet{
		"Error": newMethod(P.reflectPackage, errorType, "Error"),
	}
}

func (P *Program) reflectPkg() *ssa.Package { return P.reflectPackage }

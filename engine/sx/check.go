package sx

// The `check` and `replay` commands: run every harness of a property, confirm
// counterexamples natively, attribute known findings, cross-validate explored
// paths against the compiled implementation, and write the evidence file.

import (
	"bytes"
	"crypto/sha1"
	"encoding/json"
	"fmt"
	"os"
	"os/exec"
	"path/filepath"
	"regexp"
	"sort"
	"strconv"
	"strings"
	"sync"
	"time"
)

type replayCase struct {
	ID        int        `json:"id"`
	Harness   string     `json:"harness"`
	Inputs    []InputRec `json:"inputs"`
	Known     []string   `json:"known"`
	FindingID string     `json:"finding_id"`
	Thorough  bool       `json:"thorough"`
	Free      bool       `json:"free,omitempty"`
	// documentation only
	Property string `json:"property,omitempty"`
	Expect   string `json:"expect,omitempty"`
}

type replayResult struct {
	ID       int      `json:"id"`
	Status   string   `json:"status"`
	Label    string   `json:"label"`
	Msg      string   `json:"msg"`
	Observes []string `json:"observes"`
	Stack    string   `json:"stack"`
}

func goEnv() []string {
	return append(os.Environ(), "GOFLAGS=-mod=mod", "GOPROXY=off", "GOSUMDB=off", "GOTOOLCHAIN=local", "CGO_ENABLED=0")
}

// threadedProperty: properties whose harnesses start goroutines; their native
// runner is built from an instrumented scratch copy of ggql (see mutexOverlay)
// so that a recorded schedule can be replayed deterministically.
func threadedProperty(prop string) bool { return prop == "C12" || prop == "C20" }

var lockCall = regexp.MustCompile(`([A-Za-z_][A-Za-z0-9_.]*)\.(Lock|Unlock|RLock|RUnlock)\(\)`)

// mutexOverlay writes, under tmp, a copy of every non-test file of
// /repo/pkg/ggql in which x.Lock() / x.Unlock() are rewritten to
// verifLock(&x) / verifUnlock(&x), plus zz_verifhook.go defining them, and
// returns the path of a go build -overlay file.  Nothing in /repo is touched;
// the copy is regenerated from the current working tree on every run.
func mutexOverlay(harnessDir, tmp string) (string, error) {
	mod, err := os.ReadFile(filepath.Join(harnessDir, "go.mod"))
	if err != nil {
		return "", err
	}
	m := regexp.MustCompile(`replace\s+github.com/uhn/ggql\s+=>\s+(\S+)`).FindSubmatch(mod)
	if m == nil {
		return "", fmt.Errorf("no replace directive for ggql in harness go.mod")
	}
	pkgDir := filepath.Join(string(m[1]), "pkg", "ggql")
	ents, err := os.ReadDir(pkgDir)
	if err != nil {
		return "", err
	}
	odir := filepath.Join(tmp, "overlay")
	os.MkdirAll(odir, 0o755)
	repl := map[string]string{}
	nsites := 0
	for _, e := range ents {
		name := e.Name()
		if !strings.HasSuffix(name, ".go") || strings.HasSuffix(name, "_test.go") {
			continue
		}
		src, err := os.ReadFile(filepath.Join(pkgDir, name))
		if err != nil {
			return "", err
		}
		if !lockCall.Match(src) {
			continue
		}
		out := lockCall.ReplaceAllFunc(src, func(b []byte) []byte {
			sm := lockCall.FindSubmatch(b)
			nsites++
			return []byte("verif" + string(sm[2]) + "(&" + string(sm[1]) + ")")
		})
		dst := filepath.Join(odir, name)
		if err := os.WriteFile(dst, out, 0o644); err != nil {
			return "", err
		}
		repl[filepath.Join(pkgDir, name)] = dst
	}
	hook := `package ggql

import "sync"

// Added by the verification overlay only (never part of /repo).

// VerifLocker is what sync.Mutex and sync.RWMutex have in common.
type VerifLocker interface {
	Lock()
	Unlock()
	TryLock() bool
}

var (
	VerifLock    = func(m VerifLocker) { m.Lock() }
	VerifUnlock  = func(m VerifLocker) { m.Unlock() }
	VerifRLock   = func(m *sync.RWMutex) { m.RLock() }
	VerifRUnlock = func(m *sync.RWMutex) { m.RUnlock() }
)

func verifLock(m VerifLocker)       { VerifLock(m) }
func verifUnlock(m VerifLocker)     { VerifUnlock(m) }
func verifRLock(m *sync.RWMutex)   { VerifRLock(m) }
func verifRUnlock(m *sync.RWMutex) { VerifRUnlock(m) }
`
	dst := filepath.Join(odir, "zz_verifhook.go")
	if err := os.WriteFile(dst, []byte(hook), 0o644); err != nil {
		return "", err
	}
	repl[filepath.Join(pkgDir, "zz_verifhook.go")] = dst
	data, _ := json.Marshal(map[string]interface{}{"Replace": repl})
	ofile := filepath.Join(tmp, "overlay.json")
	if err := os.WriteFile(ofile, data, 0o644); err != nil {
		return "", err
	}
	return ofile, nil
}

// buildReplayBinary compiles the native replay runner against /repo's current tree.
func buildReplayBinary(harnessDir, tmp string, threaded bool) (string, error) {
	bin := filepath.Join(tmp, "replay")
	args := []string{"build", "-o", bin}
	if threaded {
		ofile, err := mutexOverlay(harnessDir, tmp)
		if err != nil {
			return "", fmt.Errorf("mutex overlay: %v", err)
		}
		args = append(args, "-tags", "verifhooks", "-overlay", ofile)
	}
	args = append(args, "./cmd/replay")
	cmd := exec.Command("go", args...)
	cmd.Dir = harnessDir
	cmd.Env = goEnv()
	out, err := cmd.CombinedOutput()
	if err != nil {
		return "", fmt.Errorf("building native replay runner: %v\n%s", err, out)
	}
	return bin, nil
}

// buildRaceBinary compiles the native runner with the Go race detector (no
// instrumentation of ggql: goroutines run freely).
func buildRaceBinary(harnessDir, tmp string) (string, error) {
	bin := filepath.Join(tmp, "replay-race")
	if _, err := os.Stat(bin); err == nil {
		return bin, nil
	}
	cmd := exec.Command("go", "build", "-race", "-o", bin, "./cmd/replay")
	cmd.Dir = harnessDir
	env := []string{}
	for _, e := range goEnv() {
		if !strings.HasPrefix(e, "CGO_ENABLED=") {
			env = append(env, e)
		}
	}
	cmd.Env = append(env, "CGO_ENABLED=1")
	out, err := cmd.CombinedOutput()
	if err != nil {
		return "", fmt.Errorf("building race-detector runner: %v\n%s", err, out)
	}
	return bin, nil
}

var raceMu sync.Mutex

// confirmRace runs one case with free-running goroutines under the Go race
// detector, up to `rounds` times; "race" when the detector reports.
func confirmRace(harnessDir, tmp string, c replayCase, rounds int) replayResult {
	raceMu.Lock()
	defer raceMu.Unlock()
	bin, err := buildRaceBinary(harnessDir, tmp)
	if err != nil {
		return replayResult{ID: c.ID, Status: "error", Msg: err.Error()}
	}
	c.Free = true
	f := filepath.Join(tmp, fmt.Sprintf("race-%d.json", time.Now().UnixNano()))
	data, _ := json.Marshal([]replayCase{c})
	os.WriteFile(f, data, 0o644)
	defer os.Remove(f)
	last := replayResult{ID: c.ID, Status: "ok"}
	for k := 0; k < rounds; k++ {
		cmd := exec.Command(bin, f)
		cmd.Env = append(os.Environ(), "GORACE=halt_on_error=1 exitcode=66")
		var stdout, stderr bytes.Buffer
		cmd.Stdout, cmd.Stderr = &stdout, &stderr
		err := cmd.Run()
		if strings.Contains(stderr.String(), "WARNING: DATA RACE") {
			msg := stderr.String()
			if len(msg) > 1500 {
				msg = msg[:1500]
			}
			return replayResult{ID: c.ID, Status: "race", Label: "data race", Msg: msg}
		}
		var r replayResult
		if json.NewDecoder(&stdout).Decode(&r) == nil {
			last = r
			if failingStatus(r.Status) {
				return r
			}
		} else if err != nil {
			last = replayResult{ID: c.ID, Status: "crash", Msg: firstN(stderr.String(), 600)}
			return last
		}
	}
	return last
}

// runNative runs the cases natively; a hanging case terminates the process,
// so the remainder is re-submitted.
func runNative(bin, tmp string, cases []replayCase) (map[int]replayResult, error) {
	results := map[int]replayResult{}
	rest := cases
	for len(rest) > 0 {
		f := filepath.Join(tmp, fmt.Sprintf("cases-%d.json", time.Now().UnixNano()))
		data, _ := json.Marshal(rest)
		if err := os.WriteFile(f, data, 0o644); err != nil {
			return nil, err
		}
		cmd := exec.Command(bin, f)
		var stdout, stderr bytes.Buffer
		cmd.Stdout, cmd.Stderr = &stdout, &stderr
		err := cmd.Run()
		os.Remove(f)
		n := 0
		dec := json.NewDecoder(&stdout)
		for dec.More() {
			var r replayResult
			if dec.Decode(&r) != nil {
				break
			}
			results[r.ID] = r
			n++
		}
		if n >= len(rest) {
			break
		}
		if err == nil && n < len(rest) {
			return results, fmt.Errorf("native runner stopped early: %s", stderr.String())
		}
		// process died at case n (fatal error such as stack overflow, or exit after hang)
		if n < len(rest) {
			if _, ok := results[rest[n].ID]; !ok || results[rest[n].ID].Status == "" {
				msg := stderr.String()
				if len(msg) > 600 {
					msg = msg[:600]
				}
				results[rest[n].ID] = replayResult{ID: rest[n].ID, Status: "crash", Msg: msg}
			}
			// a "hang" result was already emitted before exit(4): skip past it
			if n > 0 && results[rest[n-1].ID].Status == "hang" {
				rest = rest[n:]
			} else {
				rest = rest[n+1:]
			}
		}
	}
	return results, nil
}

func failingStatus(s string) bool {
	switch s {
	case "assert", "panic", "hang", "crash", "race":
		return true
	}
	return false
}

type hOut struct {
	he          harnessEvidence
	total       SolverStats
	instrs      map[string]int64
	intrinsics  map[string]int
	samples     []map[string]interface{}
	violLines   []string
	knownLines  []string
	inconcl     []string
	nValidated  int
	nViol       int
	knownHit    []string
	overApprox  int
	pathLimited bool
	fatal       string
}

func checkHarness(P *Program, o checkOpts, h string, known map[string]KnownFinding, knownIDs []string,
	bin, tmp, replayDir string, sem chan struct{}) (out *hOut) {
	out = &hOut{instrs: map[string]int64{}, intrinsics: map[string]int{}}
	prop := o.Property
	inconclusive := func(msg string) int { out.fatal = msg; return 3 }
	mkCase := func(id int, h string, in []InputRec, finding string, thorough bool) replayCase {
		return replayCase{ID: id, Harness: h, Inputs: in, Known: knownIDs, FindingID: finding, Thorough: thorough}
	}
	instrs, intrinsics := out.instrs, out.intrinsics
	var (
		total                         = &out.total
		samples                       = &out.samples
		nValidated, nViol, overApprox = &out.nValidated, &out.nViol, &out.overApprox
		pathLimited                   = &out.pathLimited
	)
	_ = total
	cfg := tierConfig(o.Tier, o.Workers)
	cfg.Sem = sem
	cfg.Known = known
	cfg.Verbose = o.Verbose
	he := harnessEvidence{Name: h, Bounds: P.HarnessDoc(h), AssertsReached: map[string]int{}, CoversReached: map[string]int{}}
	hr, err := Explore(P, h, cfg)
	if err != nil {
		inconclusive("explore " + h + ": " + err.Error())
		return out
	}
	merge := func(hr *HarnessResult) {
		he.Paths += hr.Paths
		he.OK += hr.OK
		he.EndedByAssume += hr.AssumeEnded
		he.CutKnownRegion += hr.Cut
		he.Forks += hr.Forks
		he.Decisions += hr.Decisions
		he.WallSecs += hr.WallSecs
		if hr.MaxSteps > he.MaxSteps {
			he.MaxSteps = hr.MaxSteps
		}
		if hr.MaxDepth > he.MaxDepth {
			he.MaxDepth = hr.MaxDepth
		}
		for l, n := range hr.AssertReached {
			he.AssertsReached[l] += n
		}
		for l, n := range hr.CoverReached {
			he.CoversReached[l] += n
		}
		for f, n := range hr.Instrs {
			instrs[f] += n
		}
		for f, n := range hr.Intrinsics {
			intrinsics[f] += n
		}
		addStats(total, &hr.Stats)
		for _, r := range hr.Inconclusive {
			out.inconcl = append(out.inconcl, h+": "+r)
		}
		if hr.PathLimitHit {
			*pathLimited = true
			out.inconcl = append(out.inconcl, fmt.Sprintf("%s: path limit %d reached", h, cfg.MaxPaths))
		}
		*overApprox += hr.OverApprox
	}
	merge(hr)

	// ---- main pass violations: confirm natively
	var cases []replayCase
	for k, v := range hr.Violations {
		cases = append(cases, mkCase(k, h, v.Inputs, "", cfg.Thorough))
	}
	// ---- cross-validation samples
	base := len(cases)
	for k, s := range hr.Samples {
		cases = append(cases, mkCase(base+k, h, s.Inputs, "", cfg.Thorough))
	}
	res, err := runNative(bin, tmp, cases)
	if err != nil {
		inconclusive("native run: " + err.Error())
		return out
	}
	perLabel := map[string]int{}
	raceConfirmed := 0
	for k, v := range hr.Violations {
		r := res[k]
		if v.Kind == "panic" && strings.Contains(v.Msg, "DATA RACE") {
			// the schedule-following native run is serialised by the baton, so a
			// race cannot show there: confirm with free-running goroutines under
			// the Go race detector (first few only, they are the same pair)
			if raceConfirmed < 2 {
				r = confirmRace(o.HarnessDir, tmp, cases[k], 30)
				if r.Status == "race" {
					raceConfirmed++
					cases[k].Free = true
				}
			} else {
				r = replayResult{ID: k, Status: "race", Label: "data race", Msg: "same race as confirmed above"}
				cases[k].Free = true
			}
		}
		if failingStatus(r.Status) {
			perLabel[v.Label]++
			if perLabel[v.Label] <= 2 {
				file := saveReplay(replayDir, prop, cases[k], v, r)
				out.violLines = append(out.violLines, fmt.Sprintf("VIOLATION property=%s replay=%s", prop, file))
				fmt.Fprintf(os.Stderr, "  %s: %s %q inputs %s natively: %s %s %s\n", h, v.Kind, v.Label, inputsString(v.Inputs), r.Status, r.Label, firstLine(r.Msg))
			}
			*nViol++
			he.Violations++
		} else {
			out.inconcl = append(out.inconcl, fmt.Sprintf("%s: engine counterexample (%s %q: %s) did not reproduce natively (native: %s %s) inputs=%s stack=%s",
				h, v.Kind, v.Label, v.Msg, r.Status, r.Msg, inputsString(v.Inputs), v.Stack))
		}
	}
	for k, s := range hr.Samples {
		r := res[base+k]
		if r.Status != "ok" || !sameStrings(r.Observes, s.Observes) {
			out.inconcl = append(out.inconcl, fmt.Sprintf("%s: engine/native disagreement on inputs %s: engine ok %v, native %s %s %v",
				h, inputsString(s.Inputs), s.Observes, r.Status, r.Msg, r.Observes))
			if os.Getenv("GOSYM_KEEP_DISAGREE") != "" {
				saveReplay(replayDir, prop, cases[base+k], &Violation{Kind: "disagree", Label: "engine/native disagreement"}, r)
			}
		} else {
			*nValidated++
			he.NativeValidated++
		}
		if len(*samples) < 6 {
			*samples = append(*samples, map[string]interface{}{"harness": h, "inputs": inputsMap(s.Inputs), "observed": s.Observes, "verdict": "holds; native run agrees"})
		}
	}

	// ---- finding passes
	for _, id := range knownIDs {
		kf := known[id]
		if kf.Harness != h {
			continue
		}
		fcfg := tierConfig(o.Tier, o.Workers)
		fcfg.Sem = sem
		cfg.Sem = sem
		fcfg.Known = known
		fcfg.FindingID = id
		fcfg.MaxViolations = 3
		fcfg.SampleModels = 0
		fhr, err := Explore(P, h, fcfg)
		if err != nil {
			inconclusive("explore " + h + ": " + err.Error())
			return out
		}
		fhr.PathLimitHit = false // stopping early after the finding is found is expected
		merge(fhr)
		var fc []replayCase
		for k, v := range fhr.Violations {
			fc = append(fc, mkCase(k, h, v.Inputs, id, fcfg.Thorough))
		}
		fres, err := runNative(bin, tmp, fc)
		if err != nil {
			inconclusive("native run: " + err.Error())
			return out
		}
		confirmed := false
		for k, v := range fhr.Violations {
			r := fres[k]
			matches := v.Label == kf.Label || (kf.Label == "panic" && v.Kind == "panic") || (kf.Label == "hang" && v.Kind == "hang")
			if !failingStatus(r.Status) {
				out.inconcl = append(out.inconcl, fmt.Sprintf("%s: counterexample in known region %s did not reproduce natively (%s %s) inputs=%s", h, id, r.Status, r.Msg, inputsString(v.Inputs)))
				continue
			}
			if matches {
				if !confirmed {
					confirmed = true
					out.knownLines = append(out.knownLines, fmt.Sprintf("KNOWN-FINDING: property=%s %s [%s] e.g. inputs %s", prop, kf.Description, id, inputsString(v.Inputs)))
					out.knownHit = append(out.knownHit, id)
					if len(*samples) < 10 {
						*samples = append(*samples, map[string]interface{}{"harness": h, "inputs": inputsMap(v.Inputs), "verdict": "KNOWN-FINDING " + id, "native": r.Status + " " + r.Label})
					}
				}
			} else {
				file := saveReplay(replayDir, prop, fc[k], v, r)
				out.violLines = append(out.violLines, fmt.Sprintf("VIOLATION property=%s replay=%s", prop, file))
				*nViol++
				he.Violations++
			}
		}
		he.FindingPasses = append(he.FindingPasses, fmt.Sprintf("%s: confirmed=%v paths=%d", id, confirmed, fhr.Paths))
	}

	// ---- vacuity
	asserts, covers := P.AssertLabels(h)
	for _, l := range asserts {
		if he.AssertsReached[l] == 0 {
			he.Unreached = append(he.Unreached, "assert:"+l)
		}
	}
	for _, l := range covers {
		if he.CoversReached[l] == 0 {
			he.Unreached = append(he.Unreached, "cover:"+l)
		}
	}
	if len(he.Unreached) > 0 && he.Violations == 0 {
		out.inconcl = append(out.inconcl, fmt.Sprintf("%s: vacuous: never reached %v", h, he.Unreached))
	}
	fmt.Fprintf(os.Stderr, "%s: paths=%d ok=%d assume=%d cut=%d viol=%d validated=%d wall=%.1fs\n",
		h, he.Paths, he.OK, he.EndedByAssume, he.CutKnownRegion, he.Violations, he.NativeValidated, he.WallSecs)

	out.he = he
	return out
}

type harnessEvidence struct {
	Name            string         `json:"name"`
	Bounds          string         `json:"bounds_and_oracle,omitempty"`
	Paths           int            `json:"paths"`
	OK              int            `json:"ok"`
	EndedByAssume   int            `json:"ended_by_assume"`
	CutKnownRegion  int            `json:"cut_known_region"`
	Forks           int            `json:"forks"`
	Decisions       int            `json:"decisions"`
	AssertsReached  map[string]int `json:"asserts_reached"`
	CoversReached   map[string]int `json:"covers_reached"`
	Unreached       []string       `json:"unreached,omitempty"`
	MaxSteps        int64          `json:"max_instrs_on_a_path"`
	MaxDepth        int            `json:"max_call_depth"`
	WallSecs        float64        `json:"wall_s"`
	FindingPasses   []string       `json:"finding_passes,omitempty"`
	NativeValidated int            `json:"native_validated"`
	Violations      int            `json:"violations"`
}

type checkOpts struct {
	Property   string
	Tier       string
	HarnessDir string
	VerifDir   string
	Workers    int
	Only       string
	Verbose    bool
	Seed       int64
}

// Bounds table: per tier engine budgets.
func tierConfig(tier string, workers int) *Config {
	cfg := &Config{MaxSteps: 10_000_000, MaxDepth: 3000, MaxPaths: 200_000, QueryTimeoutMs: 60_000,
		Workers: workers, Solver: "z3", SampleModels: 12, MaxThreads: 4, MaxPreempt: 2}
	if tier == "thorough" {
		cfg.MaxPaths = 3_000_000
		cfg.QueryTimeoutMs = 120_000
		cfg.SampleModels = 64
		cfg.MaxPreempt = 1 << 30
		cfg.Thorough = true
	}
	return cfg
}

func runCheck(o checkOpts) int {
	t0 := time.Now()
	prop := o.Property
	inconclusive := func(msg string) int {
		fmt.Printf("INCONCLUSIVE property=%s reason=%s\n", prop, strings.ReplaceAll(msg, "\n", " | "))
		return 3
	}
	tmp, err := os.MkdirTemp("", "gosym-"+prop+"-")
	if err != nil {
		return inconclusive(err.Error())
	}
	defer os.RemoveAll(tmp)

	// native runner builds while the SSA loads
	type binRes struct {
		bin string
		err error
	}
	binCh := make(chan binRes, 1)
	go func() {
		b, err := buildReplayBinary(o.HarnessDir, tmp, threadedProperty(prop))
		binCh <- binRes{b, err}
	}()

	P, err := LoadProgram(o.HarnessDir)
	if err != nil {
		return inconclusive("load: " + err.Error())
	}
	known, fixed, err := loadKnown(filepath.Join(o.VerifDir, "known_findings.json"))
	if err != nil {
		return inconclusive("known_findings.json: " + err.Error())
	}
	_ = fixed
	names := P.HarnessNames(prop)
	if o.Only != "" {
		var f []string
		for _, n := range names {
			if strings.Contains(n, o.Only) {
				f = append(f, n)
			}
		}
		names = f
	}
	if len(names) == 0 {
		return inconclusive("no harness for property")
	}
	br := <-binCh
	if br.err != nil {
		return inconclusive(br.err.Error())
	}
	bin := br.bin

	var (
		evid        []harnessEvidence
		total       SolverStats
		instrs      = map[string]int64{}
		intrinsics  = map[string]int{}
		samples     []map[string]interface{}
		violLines   []string
		knownLines  []string
		inconcl     []string
		nValidated  int
		nPaths      int
		nViol       int
		knownHit    []string
		overApprox  int
		pathLimited bool
	)
	replayDir := filepath.Join(o.VerifDir, "replays")
	knownIDs := []string{}
	for id := range known {
		knownIDs = append(knownIDs, id)
	}
	sort.Strings(knownIDs)
	sem := make(chan struct{}, o.Workers)
	outs := make([]*hOut, len(names))
	var wg sync.WaitGroup
	for k, h := range names {
		wg.Add(1)
		go func(k int, h string) {
			defer wg.Done()
			outs[k] = checkHarness(P, o, h, known, knownIDs, bin, tmp, replayDir, sem)
		}(k, h)
	}
	wg.Wait()
	for _, ho := range outs {
		if ho.fatal != "" {
			return inconclusive(ho.fatal)
		}
		evid = append(evid, ho.he)
		addStats(&total, &ho.total)
		for f, n := range ho.instrs {
			instrs[f] += n
		}
		for f, n := range ho.intrinsics {
			intrinsics[f] += n
		}
		for _, sm := range ho.samples {
			if len(samples) < 12 {
				samples = append(samples, sm)
			}
		}
		violLines = append(violLines, ho.violLines...)
		knownLines = append(knownLines, ho.knownLines...)
		inconcl = append(inconcl, ho.inconcl...)
		nValidated += ho.nValidated
		nPaths += ho.he.Paths
		nViol += ho.nViol
		knownHit = append(knownHit, ho.knownHit...)
		overApprox += ho.overApprox
		pathLimited = pathLimited || ho.pathLimited
	}

	// ---- evidence
	type fnCount struct {
		Fn     string `json:"fn"`
		Instrs int64  `json:"instrs"`
	}
	var fns []fnCount
	for f, n := range instrs {
		if strings.Contains(f, "uhn/ggql") {
			fns = append(fns, fnCount{strings.ReplaceAll(f, "github.com/uhn/ggql/pkg/", ""), n})
		}
	}
	sort.Slice(fns, func(a, b int) bool { return fns[a].Instrs > fns[b].Instrs })
	var intr []string
	for f, n := range intrinsics {
		intr = append(intr, fmt.Sprintf("%s x%d", f, n))
	}
	sort.Strings(intr)
	if len(samples) == 0 {
		samples = append(samples, map[string]interface{}{"note": "no non-violating path sampled"})
	}
	sort.Strings(knownHit)
	ev := map[string]interface{}{
		"property_id": prop,
		"tier":        o.Tier,
		"seed":        o.Seed,
		"level":       "model_checking",
		"coverage": map[string]interface{}{
			"states":                        nPaths,
			"transitions":                   total.Queries,
			"traces_validated_against_impl": nValidated,
			"evaluations":                   nPaths,
			"distinct_nontrivial":           nPaths,
			"rule":                          "one evaluation = one feasible symbolic path of a harness (a distinct decision prefix; every branch on a symbolic condition was decided by the solver under the path condition); all such paths are non-trivial and distinct by construction. states = paths, transitions = solver queries decided",
			"exhaustive":                    len(inconcl) == 0 && !pathLimited,
			"samples":                       samples,
			"harnesses":                     evid,
			"functions_encoded":             fns,
			"queries": map[string]interface{}{"total": total.Queries, "sat": total.Sat, "unsat": total.Unsat, "unknown": total.Unknown,
				"errors": total.Errors, "assertions_sent": total.Asserted},
			"solver":                     map[string]interface{}{"name": "z3 4.8.12 (one process per worker, incremental)", "seconds": round3(total.Seconds)},
			"environment_models_touched": intr,
			"over_approximated_calls":    overApprox,
			"known_findings_hit":         knownHit,
			"inconclusive":               inconcl,
			"ssa":                        map[string]interface{}{"load_s": round3(P.LoadSecs), "build_s": round3(P.BuildSecs), "source": "/repo working tree via harness go.mod replace"},
			"engine_budgets": func() map[string]interface{} {
				c := tierConfig(o.Tier, o.Workers)
				return map[string]interface{}{"instructions_per_path": c.MaxSteps, "call_depth": c.MaxDepth, "paths_per_harness": c.MaxPaths,
					"solver_timeout_ms_per_query": c.QueryTimeoutMs, "threads": c.MaxThreads, "preemptions_per_schedule": c.MaxPreempt,
					"native_cross_validation_samples_per_harness": c.SampleModels}
			}(),
		},
		"assumptions": []string{
			"bounds are those written in each harness (sym.* sizes, Choice families) and the engine budgets (instructions per path, call depth); nothing outside them is claimed",
			"amd64 float->int conversion semantics (DESIGN.md Appendix A)",
			"environment models listed under environment_models_touched (DESIGN.md section 3.3)",
			"map iteration order = insertion order unless the harness switches symbolic order on",
			"harness oracles in /verif/harness/props",
		},
		"wall_s":     round3(time.Since(t0).Seconds()),
		"violations": nViol,
	}
	os.MkdirAll(filepath.Join(o.VerifDir, "evidence"), 0o755)
	data, _ := json.MarshalIndent(ev, "", " ")
	if err := os.WriteFile(filepath.Join(o.VerifDir, "evidence", prop+".json"), data, 0o644); err != nil {
		return inconclusive(err.Error())
	}

	for _, l := range knownLines {
		fmt.Println(l)
	}
	if nViol > 0 {
		seen := map[string]bool{}
		for _, l := range violLines {
			if !seen[l] {
				seen[l] = true
				fmt.Println(l)
			}
		}
		return 1
	}
	if len(inconcl) > 0 {
		for k, m := range inconcl {
			if k < 5 {
				fmt.Fprintln(os.Stderr, "inconclusive:", m)
			}
		}
		return inconclusive(fmt.Sprintf("%d inconclusive items, first: %s", len(inconcl), firstN(inconcl[0], 400)))
	}
	fmt.Printf("OK property=%s tier=%s harnesses=%d paths=%d queries=%d native_validated=%d wall=%.1fs\n",
		prop, o.Tier, len(names), nPaths, total.Queries, nValidated, time.Since(t0).Seconds())
	return 0
}

func round3(f float64) float64 { return float64(int64(f*1000)) / 1000 }

func firstLine(s string) string {
	if k := strings.IndexByte(s, '\n'); k >= 0 {
		return s[:k]
	}
	return s
}

func firstN(s string, n int) string {
	if len(s) > n {
		return s[:n]
	}
	return s
}

func sameStrings(a, b []string) bool {
	if len(a) != len(b) {
		return false
	}
	for k := range a {
		if a[k] != b[k] {
			return false
		}
	}
	return true
}

func inputsMap(in []InputRec) []string {
	var out []string
	for _, x := range in {
		out = append(out, inputString(x))
	}
	return out
}

func inputString(x InputRec) string {
	switch x.Kind {
	case "bytes", "string":
		b := make([]byte, len(x.Vals))
		for k, v := range x.Vals {
			b[k] = byte(v)
		}
		return fmt.Sprintf("%s=%q", x.Name, string(b))
	case "int", "int8", "int16", "int32", "int64":
		w := map[string]int{"int": 64, "int8": 8, "int16": 16, "int32": 32, "int64": 64}[x.Kind]
		if len(x.Vals) == 1 {
			return fmt.Sprintf("%s=%d", x.Name, sext64(x.Vals[0], w))
		}
	case "float64":
		if len(x.Vals) == 1 {
			return fmt.Sprintf("%s=%v", x.Name, concreteOf(14, x.Vals[0]))
		}
	case "float32":
		if len(x.Vals) == 1 {
			return fmt.Sprintf("%s=%v", x.Name, concreteOf(13, x.Vals[0]))
		}
	}
	if len(x.Vals) == 1 {
		return fmt.Sprintf("%s=%d", x.Name, x.Vals[0])
	}
	return fmt.Sprintf("%s=%v", x.Name, x.Vals)
}

func inputsString(in []InputRec) string { return strings.Join(inputsMap(in), " ") }

func saveReplay(dir, prop string, c replayCase, v *Violation, r replayResult) string {
	os.MkdirAll(dir, 0o755)
	c.Property = prop
	c.Expect = fmt.Sprintf("%s %s: %s (native: %s %s %s)", v.Kind, v.Label, v.Msg, r.Status, r.Label, firstLine(r.Msg))
	data, _ := json.MarshalIndent(c, "", " ")
	h := sha1.Sum(data)
	file := filepath.Join(dir, fmt.Sprintf("%s-%s-%x.json", prop, c.Harness, h[:5]))
	os.WriteFile(file, data, 0o644)
	return file
}

// known_findings.json: {"findings":[{id,property,harness,label,description}], "fixed":["fixed: property=.. <commit> <what>"]}
func loadKnown(path string) (map[string]KnownFinding, []string, error) {
	out := map[string]KnownFinding{}
	data, err := os.ReadFile(path)
	if os.IsNotExist(err) {
		return out, nil, nil
	}
	if err != nil {
		return nil, nil, err
	}
	var f struct {
		Findings []KnownFinding `json:"findings"`
		Fixed    []string       `json:"fixed"`
	}
	if err := json.Unmarshal(data, &f); err != nil {
		return nil, nil, err
	}
	for _, k := range f.Findings {
		out[k.ID] = k
	}
	return out, f.Fixed, nil
}

// runReplay re-runs a saved counterexample natively: exit 1 if it still fails.
func runReplay(harnessDir, file string) int {
	tmp, err := os.MkdirTemp("", "gosym-replay-")
	if err != nil {
		fmt.Fprintln(os.Stderr, err)
		return 3
	}
	defer os.RemoveAll(tmp)
	data, err := os.ReadFile(file)
	if err != nil {
		fmt.Fprintln(os.Stderr, err)
		return 3
	}
	var c replayCase
	if err := json.Unmarshal(data, &c); err != nil {
		fmt.Fprintln(os.Stderr, err)
		return 3
	}
	var r replayResult
	if c.Free {
		r = confirmRace(harnessDir, tmp, c, 30)
	} else {
		bin, err := buildReplayBinary(harnessDir, tmp, threadedProperty(c.Property))
		if err != nil {
			fmt.Fprintln(os.Stderr, err)
			return 3
		}
		res, err := runNative(bin, tmp, []replayCase{c})
		if err != nil {
			fmt.Fprintln(os.Stderr, err)
			return 3
		}
		r = res[c.ID]
	}
	fmt.Printf("harness=%s inputs: %s\nexpected: %s\nnative: %s %s %s\n", c.Harness, inputsString(c.Inputs), c.Expect, r.Status, r.Label, r.Msg)
	if r.Stack != "" {
		fmt.Println(r.Stack)
	}
	if failingStatus(r.Status) {
		fmt.Printf("VIOLATION property=%s replay=%s\n", c.Property, file)
		return 1
	}
	return 0
}

var _ = strconv.Itoa

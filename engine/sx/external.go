// Derived in part from golang.org/x/tools/go/ssa/interp (BSD license).

package sx

// Environment models: functions that cannot be interpreted from source
// (assembly, unsafe, runtime internals) or that are deliberately modelled.
// Every one of them is part of the claim of a check that touches it; the set
// touched is reported in the evidence (Run.intrins).

import (
	"fmt"
	"go/types"
	"math"
	"regexp"
	"strconv"
	"strings"
	"unsafe"

	"golang.org/x/tools/go/ssa"
)

type externalFn func(fr *frame, args []value) value

// Key strings are from Function.String().
var externals = make(map[string]externalFn)

func note(name string, f externalFn) externalFn {
	return func(fr *frame, args []value) value {
		fr.i.run.intrins[name]++
		return f(fr, args)
	}
}

func init() {
	for k, v := range map[string]externalFn{
		"bytes.Equal":                          ext۰bytes۰Equal,
		"bytes.IndexByte":                      ext۰bytes۰IndexByte,
		"internal/bytealg.Equal":               ext۰bytes۰Equal,
		"internal/bytealg.IndexByte":           ext۰bytes۰IndexByte,
		"internal/bytealg.IndexByteString":     ext۰strings۰IndexByte,
		"internal/bytealg.LastIndexByteString": ext۰strings۰LastIndexByte,
		"internal/bytealg.CountString":         ext۰bytealg۰CountString,
		"internal/bytealg.Count":               ext۰bytealg۰Count,
		"internal/bytealg.Compare":             ext۰bytealg۰Compare,
		"internal/bytealg.CompareString":       ext۰bytealg۰Compare,
		"internal/bytealg.MakeNoZero":          ext۰bytealg۰MakeNoZero,
		"internal/bytealg.IndexString":         ext۰strings۰Index,
		"internal/bytealg.Index":               ext۰strings۰Index,
		"internal/stringslite.Index":           ext۰strings۰Index,
		"internal/stringslite.IndexByte":       ext۰strings۰IndexByte,
		"internal/stringslite.Clone":           func(fr *frame, args []value) value { return args[0] },
		"strings.Clone":                        func(fr *frame, args []value) value { return args[0] },
		"strings.Index":                        ext۰strings۰Index,
		"strings.IndexByte":                    ext۰strings۰IndexByte,
		"strings.Compare":                      ext۰strings۰Compare,
		"strings.Count":                        ext۰strings۰Count,
		"(*strings.Builder).String":            ext۰Builder۰String,
		"(*strings.Builder).WriteString":       ext۰Builder۰WriteString,
		"(*strings.Builder).WriteByte":         ext۰Builder۰WriteByte,
		"(*strings.Builder).WriteRune":         ext۰Builder۰WriteRune,
		"(*strings.Builder).Write":             ext۰Builder۰Write,
		"(*strings.Builder).Len":               ext۰Builder۰Len,
		"(*strings.Builder).Grow":              func(fr *frame, args []value) value { return nil },
		"(*strings.Builder).Reset":             ext۰Builder۰Reset,
		"(*strings.Builder).copyCheck":         func(fr *frame, args []value) value { return nil },
		"math.Float32bits":                     ext۰math۰Float32bits,
		"math.Float32frombits":                 ext۰math۰Float32frombits,
		"math.Float64bits":                     ext۰math۰Float64bits,
		"math.Float64frombits":                 ext۰math۰Float64frombits,
		"math.Abs": func(fr *frame, args []value) value {
			return fr.i.fpUnary(args[0], func(t *Term) *Term { return fr.i.tt.FAbs(t) })
		},
		"math.Trunc": func(fr *frame, args []value) value {
			return fr.i.fpUnary(args[0], func(t *Term) *Term { return fr.i.tt.FRound(t, 0) })
		},
		"math.Floor": func(fr *frame, args []value) value {
			return fr.i.fpUnary(args[0], func(t *Term) *Term { return fr.i.tt.FRound(t, 1) })
		},
		"math.Ceil": func(fr *frame, args []value) value {
			return fr.i.fpUnary(args[0], func(t *Term) *Term { return fr.i.tt.FRound(t, 2) })
		},
		"math.IsNaN":                      func(fr *frame, args []value) value { return fr.i.mkBool(fr.i.tt.FIsNaN(fr.i.term(args[0]))) },
		"math.IsInf":                      ext۰math۰IsInf,
		"math.Inf":                        func(fr *frame, args []value) value { return math.Inf(int(asInt64(args[0]))) },
		"math.NaN":                        func(fr *frame, args []value) value { return math.NaN() },
		"strconv.ParseFloat":              note("strconv.ParseFloat", ext۰strconv۰ParseFloat),
		"strconv.FormatFloat":             note("strconv.FormatFloat", ext۰strconv۰FormatFloat),
		"strconv.AppendFloat":             note("strconv.AppendFloat", ext۰strconv۰AppendFloat),
		"fmt.Errorf":                      note("fmt.Errorf", ext۰fmt۰Errorf),
		"fmt.Sprintf":                     note("fmt.Sprintf", ext۰fmt۰Sprintf),
		"fmt.Sprint":                      note("fmt.Sprint", ext۰fmt۰Sprint),
		"fmt.Println":                     func(fr *frame, args []value) value { return tuple{0, iface{}} },
		"fmt.Printf":                      func(fr *frame, args []value) value { return tuple{0, iface{}} },
		"errors.Is":                       note("errors.Is", ext۰errors۰Is),
		"errors.As":                       note("errors.As", ext۰errors۰As),
		"errors.Unwrap":                   ext۰errors۰Unwrap,
		"sort.Slice":                      note("sort.Slice", ext۰sort۰Slice),
		"sort.SliceStable":                note("sort.SliceStable", ext۰sort۰Slice),
		"sort.Strings":                    note("sort.Strings", ext۰sort۰Strings),
		"sort.Ints":                       note("sort.Ints", ext۰sort۰Ints),
		"(*sync.Mutex).Lock":              ext۰Mutex۰Lock,
		"(*sync.Mutex).Unlock":            ext۰Mutex۰Unlock,
		"(*sync.RWMutex).Lock":            ext۰RWMutex۰Lock,
		"(*sync.RWMutex).Unlock":          ext۰RWMutex۰Unlock,
		"(*sync.RWMutex).RLock":           ext۰RWMutex۰RLock,
		"(*sync.RWMutex).RUnlock":         ext۰RWMutex۰RUnlock,
		"(*sync.WaitGroup).Add":           ext۰WaitGroup۰Add,
		"(*sync.WaitGroup).Done":          ext۰WaitGroup۰Done,
		"(*sync.WaitGroup).Wait":          ext۰WaitGroup۰Wait,
		"runtime.Gosched":                 func(fr *frame, args []value) value { fr.i.yield("gosched"); return nil },
		"runtime.GC":                      func(fr *frame, args []value) value { return nil },
		"runtime.KeepAlive":               func(fr *frame, args []value) value { return nil },
		"time.Sleep":                      func(fr *frame, args []value) value { fr.i.yield("sleep"); return nil },
		ggqlPath + ".IsNil":               note("ggql.IsNil", ext۰ggql۰IsNil),
		"os.Getenv":                       func(fr *frame, args []value) value { return "" },
		"unicode/utf8.DecodeRuneInString": nil,
	} {
		if v != nil {
			externals[k] = v
		}
	}
	for k, v := range reflectExternals {
		externals[k] = v
	}
}

func (i *interpreter) fpUnary(v value, f func(*Term) *Term) value {
	return i.mk(kindOf(v), f(i.term(v)))
}

func ext۰math۰IsInf(fr *frame, args []value) value {
	i := fr.i
	tt := i.tt
	f := i.term(args[0])
	sign := asInt64(args[1])
	inf := tt.FIsInf(f)
	zero := tt.FPConst(f.S, 0)
	switch {
	case sign > 0:
		return i.mkBool(tt.And(inf, tt.FCmp(OFLt, zero, f)))
	case sign < 0:
		return i.mkBool(tt.And(inf, tt.FCmp(OFLt, f, zero)))
	}
	return i.mkBool(inf)
}

func cf64(v value) float64 {
	switch v := v.(type) {
	case float64:
		return v
	case float32:
		return float64(v)
	}
	panic(unsupported(fmt.Sprintf("float operation on %T", v)))
}

// ---------------------------------------------------------------- bytes / strings

func (i *interpreter) byteEq(a, b value) bool {
	ac, aok := a.(uint8)
	bc, bok := b.(uint8)
	if aok && bok {
		return ac == bc
	}
	return i.decide(i.tt.Eq(i.term(a), i.term(b)), "byte compare")
}

func seqOf(v value) []value {
	switch v := v.(type) {
	case []value:
		return v
	case string, *SStr:
		return strBytes(v)
	}
	panic(fmt.Sprintf("seqOf(%T)", v))
}

func ext۰bytes۰Equal(fr *frame, args []value) value {
	a := seqOf(args[0])
	b := seqOf(args[1])
	if len(a) != len(b) {
		return false
	}
	return fr.i.strEq(&SStr{a}, &SStr{b})
}

func ext۰bytes۰IndexByte(fr *frame, args []value) value {
	s := seqOf(args[0])
	for k, b := range s {
		if fr.i.byteEq(b, args[1]) {
			return k
		}
	}
	return -1
}

func ext۰strings۰IndexByte(fr *frame, args []value) value {
	return ext۰bytes۰IndexByte(fr, args)
}

func ext۰strings۰LastIndexByte(fr *frame, args []value) value {
	s := seqOf(args[0])
	for k := len(s) - 1; k >= 0; k-- {
		if fr.i.byteEq(s[k], args[1]) {
			return k
		}
	}
	return -1
}

func ext۰strings۰Index(fr *frame, args []value) value {
	s, sub := seqOf(args[0]), seqOf(args[1])
	n := len(sub)
	for k := 0; k+n <= len(s); k++ {
		if fr.i.truth(fr.i.strEq(&SStr{s[k : k+n]}, &SStr{sub})) {
			return k
		}
	}
	return -1
}

func ext۰strings۰Count(fr *frame, args []value) value {
	s, sub := seqOf(args[0]), seqOf(args[1])
	if len(sub) == 0 {
		// number of runes + 1; concrete only
		cs, ok := args[0].(string)
		if !ok {
			panic(unsupported("strings.Count with empty separator on a symbolic string"))
		}
		return strings.Count(cs, "")
	}
	cnt := 0
	for k := 0; k+len(sub) <= len(s); {
		if fr.i.truth(fr.i.strEq(&SStr{s[k : k+len(sub)]}, &SStr{sub})) {
			cnt++
			k += len(sub)
		} else {
			k++
		}
	}
	return cnt
}

func ext۰bytealg۰CountString(fr *frame, args []value) value {
	s := seqOf(args[0])
	cnt := 0
	for _, b := range s {
		if fr.i.byteEq(b, args[1]) {
			cnt++
		}
	}
	return cnt
}

func ext۰bytealg۰Count(fr *frame, args []value) value {
	return ext۰bytealg۰CountString(fr, args)
}

func ext۰bytealg۰Compare(fr *frame, args []value) value {
	a, b := &SStr{seqOf(args[0])}, &SStr{seqOf(args[1])}
	i := fr.i
	if i.truth(i.strEq(a, b)) {
		return 0
	}
	if i.decide(i.strLess(a, b, false), "compare") {
		return -1
	}
	return 1
}

func ext۰strings۰Compare(fr *frame, args []value) value {
	return ext۰bytealg۰Compare(fr, args)
}

func ext۰bytealg۰MakeNoZero(fr *frame, args []value) value {
	n := int(asInt64(args[0]))
	s := make([]value, n)
	for k := range s {
		s[k] = uint8(0)
	}
	return s
}

// strings.Builder is struct{addr *Builder; buf []byte}
func builderBuf(args []value) *value {
	p := args[0].(*value)
	if p == nil {
		panic(targetRuntimeError("invalid memory address or nil pointer dereference"))
	}
	return &(*p).(structure)[1]
}

func ext۰Builder۰String(fr *frame, args []value) value {
	b, _ := (*builderBuf(args)).([]value)
	return mkStr(b)
}

func ext۰Builder۰WriteString(fr *frame, args []value) value {
	p := builderBuf(args)
	b, _ := (*p).([]value)
	*p = append(b, strBytes(args[1])...)
	return tuple{strLen(args[1]), iface{}}
}

func ext۰Builder۰Write(fr *frame, args []value) value {
	p := builderBuf(args)
	b, _ := (*p).([]value)
	*p = append(b, args[1].([]value)...)
	return tuple{len(args[1].([]value)), iface{}}
}

func ext۰Builder۰WriteByte(fr *frame, args []value) value {
	p := builderBuf(args)
	b, _ := (*p).([]value)
	*p = append(b, args[1])
	return iface{}
}

func ext۰Builder۰WriteRune(fr *frame, args []value) value {
	p := builderBuf(args)
	b, _ := (*p).([]value)
	var enc []value
	switch r := args[1].(type) {
	case int32:
		enc = strBytes(string(r))
	case *SV:
		enc = strBytes(fr.i.runeToString(r))
	}
	*p = append(b, enc...)
	return tuple{len(enc), iface{}}
}

func ext۰Builder۰Len(fr *frame, args []value) value {
	b, _ := (*builderBuf(args)).([]value)
	return len(b)
}

func ext۰Builder۰Reset(fr *frame, args []value) value {
	*builderBuf(args) = []value(nil)
	return nil
}

// ---------------------------------------------------------------- math / strconv

func ext۰math۰Float64frombits(fr *frame, args []value) value {
	if sv, ok := args[0].(*SV); ok {
		return fr.i.mk(types.Float64, fr.i.tt.FFromBits(sv.T, SortF64))
	}
	return math.Float64frombits(args[0].(uint64))
}

func ext۰math۰Float64bits(fr *frame, args []value) value {
	if _, ok := args[0].(*SV); ok {
		panic(unsupported("math.Float64bits of a symbolic float"))
	}
	return math.Float64bits(args[0].(float64))
}

func ext۰math۰Float32frombits(fr *frame, args []value) value {
	if sv, ok := args[0].(*SV); ok {
		return fr.i.mk(types.Float32, fr.i.tt.FFromBits(sv.T, SortF32))
	}
	return math.Float32frombits(args[0].(uint32))
}

func ext۰math۰Float32bits(fr *frame, args []value) value {
	if _, ok := args[0].(*SV); ok {
		panic(unsupported("math.Float32bits of a symbolic float"))
	}
	return math.Float32bits(args[0].(float32))
}

func (i *interpreter) makeError(msg string) value {
	// an *errors.errorString
	errPkg := i.prog.ImportedPackage("errors")
	t := errPkg.Type("errorString").Object().Type()
	var cell value = structure{msg}
	return iface{t: types.NewPointer(t), v: &cell}
}

func ext۰strconv۰ParseFloat(fr *frame, args []value) value {
	s, ok := args[0].(string)
	if !ok {
		// over-approximation: symbolic text. Only the error/no-error outcome
		// and an unconstrained value are modelled.
		i := fr.i
		okv := i.run.freshAux("pf_ok", SortBool)
		fv := i.run.freshAux("pf_val", SortF64)
		i.run.overApprox++
		if i.decide(okv, "ParseFloat ok") {
			return tuple{&SV{K: types.Float64, T: fv}, iface{}}
		}
		return tuple{float64(0), i.makeError("strconv.ParseFloat: parsing <symbolic>: invalid syntax")}
	}
	f, err := strconv.ParseFloat(s, int(asInt64(args[1])))
	if err != nil {
		return tuple{f, fr.i.makeError(err.Error())}
	}
	return tuple{f, iface{}}
}

func ext۰strconv۰FormatFloat(fr *frame, args []value) value {
	f, ok := args[0].(float64)
	if !ok {
		if f32, ok32 := args[0].(float32); ok32 {
			f, ok = float64(f32), true
		}
	}
	if !ok {
		// The decimal text of a symbolic float is not encodable.  A placeholder
		// is returned and the run is marked: checks whose assertion depends on
		// float text keep those leaves concrete (DESIGN.md section 3.3).
		fr.i.run.overApprox++
		fr.i.run.floatTextCut++
		return "1.5"
	}
	return strconv.FormatFloat(f, args[1].(byte), int(asInt64(args[2])), int(asInt64(args[3])))
}

func ext۰strconv۰AppendFloat(fr *frame, args []value) value {
	f, ok := args[1].(float64)
	if !ok {
		panic(unsupported("strconv.AppendFloat of a symbolic float"))
	}
	s := strconv.FormatFloat(f, args[2].(byte), int(asInt64(args[3])), int(asInt64(args[4])))
	return append(args[0].([]value), strBytes(s)...)
}

// ---------------------------------------------------------------- errors

func isErrorType(t types.Type, i *interpreter) bool {
	ms := i.prog.MethodSets.MethodSet(t)
	sel := ms.Lookup(nil, "Error")
	if sel == nil {
		return false
	}
	sig := sel.Type().(*types.Signature)
	return sig.Params().Len() == 0 && sig.Results().Len() == 1
}

func (i *interpreter) methodOf(t types.Type, name string) *ssa.Function {
	ms := i.prog.MethodSets.MethodSet(t)
	for k := 0; k < ms.Len(); k++ {
		sel := ms.At(k)
		if sel.Obj().Name() == name {
			return i.prog.MethodValue(sel)
		}
	}
	return nil
}

// callMethod0 calls a niladic method by name on an interface value.
func (i *interpreter) callMethod(x iface, name string, args ...value) (value, bool) {
	if x.t == nil {
		return nil, false
	}
	if x.t == errorType && name == "Error" {
		return x.v, true
	}
	fn := i.methodOf(x.t, name)
	if fn == nil {
		return nil, false
	}
	return call(i, nil, 0, fn, append([]value{x.v}, args...)), true
}

func (i *interpreter) callError(x iface) value {
	v, ok := i.callMethod(x, "Error")
	if !ok {
		return "<no Error method>"
	}
	return v
}

func (i *interpreter) unwrap(x iface) (iface, bool) {
	fn := i.methodOf(x.t, "Unwrap")
	if fn == nil || fn.Signature.Params().Len() != 0 || fn.Signature.Results().Len() != 1 {
		return iface{}, false
	}
	r := call(i, nil, 0, fn, []value{x.v})
	e, ok := r.(iface)
	if !ok {
		return iface{}, false // Unwrap() []error not supported
	}
	return e, true
}

func ext۰errors۰Unwrap(fr *frame, args []value) value {
	x := args[0].(iface)
	if x.t == nil {
		return iface{}
	}
	e, ok := fr.i.unwrap(x)
	if !ok {
		return iface{}
	}
	return e
}

func ext۰errors۰Is(fr *frame, args []value) value {
	i := fr.i
	err, target := args[0].(iface), args[1].(iface)
	if err.t == nil || target.t == nil {
		return err.t == nil && target.t == nil
	}
	comparable := types.Comparable(target.t)
	for {
		if comparable && sameType(err.t, target.t) && equals(i, err.t, err.v, target.v) {
			return true
		}
		if fn := i.methodOf(err.t, "Is"); fn != nil && fn.Signature.Params().Len() == 1 {
			if i.truth(call(i, nil, 0, fn, []value{err.v, target})) {
				return true
			}
		}
		next, ok := i.unwrap(err)
		if !ok || next.t == nil {
			return false
		}
		err = next
	}
}

func ext۰errors۰As(fr *frame, args []value) value {
	i := fr.i
	err, target := args[0].(iface), args[1].(iface)
	if err.t == nil {
		return false
	}
	if target.t == nil {
		panic(targetPanic{iface{i.runtimeErrorString, "errors: target cannot be nil"}})
	}
	pt, ok := target.t.Underlying().(*types.Pointer)
	if !ok || target.v.(*value) == nil {
		panic(targetPanic{iface{i.runtimeErrorString, "errors: target must be a non-nil pointer"}})
	}
	tt := pt.Elem()
	_, isIface := tt.Underlying().(*types.Interface)
	for {
		if isIface {
			if types.Implements(err.t, tt.Underlying().(*types.Interface)) {
				*(target.v.(*value)) = err
				return true
			}
		} else if types.Identical(err.t, tt) {
			*(target.v.(*value)) = err.v
			return true
		}
		if fn := i.methodOf(err.t, "As"); fn != nil && fn.Signature.Params().Len() == 1 {
			if i.truth(call(i, nil, 0, fn, []value{err.v, target})) {
				return true
			}
		}
		next, ok := i.unwrap(err)
		if !ok || next.t == nil {
			return false
		}
		err = next
	}
}

// ---------------------------------------------------------------- sort

// insertion sort driving the target's less function through the interpreter
func ext۰sort۰Slice(fr *frame, args []value) value {
	i := fr.i
	x := args[0].(iface).v.([]value)
	less := args[1]
	n := len(x)
	for a := 1; a < n; a++ {
		for b := a; b > 0; b-- {
			if !i.truth(call(i, fr, 0, less, []value{b, b - 1})) {
				break
			}
			x[b], x[b-1] = x[b-1], x[b]
		}
	}
	return nil
}

func ext۰sort۰Strings(fr *frame, args []value) value {
	i := fr.i
	x := args[0].([]value)
	for a := 1; a < len(x); a++ {
		for b := a; b > 0; b-- {
			if !i.truth(binopLess(i, x[b], x[b-1])) {
				break
			}
			x[b], x[b-1] = x[b-1], x[b]
		}
	}
	return nil
}

func binopLess(i *interpreter, a, b value) value {
	if isSym(a) || isSym(b) {
		if _, ok := a.(*SV); ok {
			return i.symBinop(lssTok, nil, a, b)
		}
		if _, ok := b.(*SV); ok {
			return i.symBinop(lssTok, nil, a, b)
		}
		return i.mkBool(i.strLess(a, b, false))
	}
	return binop(i, lssTok, nil, a, b)
}

func ext۰sort۰Ints(fr *frame, args []value) value {
	return ext۰sort۰Strings(fr, args)
}

// ---------------------------------------------------------------- ggql.IsNil

func ext۰ggql۰IsNil(fr *frame, args []value) value {
	x := args[0].(iface)
	if x.t == nil {
		return true
	}
	switch v := x.v.(type) {
	case *value:
		return v == nil
	case *omap:
		return v == nil
	case chan value:
		return v == nil
	case *ssa.Function:
		return v == nil
	case *closure:
		return v == nil
	case unsafe.Pointer:
		return v == nil
	}
	return false
}

// ---------------------------------------------------------------- fmt

// formatted output is a byte vector so that symbolic strings can be spliced.
func (i *interpreter) formatValue(verb byte, flags string, arg value) []value {
	x, isIface := arg.(iface)
	if !isIface {
		panic(fmt.Sprintf("format arg %T", arg))
	}
	if verb == 'T' {
		if x.t == nil {
			return strBytes("<nil>")
		}
		return strBytes(goTypeString(x.t))
	}
	if x.t == nil {
		switch verb {
		case 's', 'v', 'w':
			if verb == 's' {
				return strBytes("%!s(<nil>)")
			}
			return strBytes("<nil>")
		case 'd':
			return strBytes("%!d(<nil>)")
		}
		return strBytes("%!" + string(verb) + "(<nil>)")
	}
	switch verb {
	case 's', 'v', 'w', 'q':
		// error / Stringer first
		if isErrorType(x.t, i) {
			if p, ok := x.v.(*value); ok && p == nil {
				return strBytes("<nil>")
			}
			return i.quoteIf(verb, i.callError(x))
		}
		if fn := i.methodOf(x.t, "String"); fn != nil && fn.Signature.Params().Len() == 0 && fn.Signature.Results().Len() == 1 {
			if p, ok := x.v.(*value); ok && p == nil {
				return strBytes("<nil>")
			}
			return i.quoteIf(verb, call(i, nil, 0, fn, []value{x.v}))
		}
	}
	switch v := x.v.(type) {
	case string, *SStr:
		switch verb {
		case 's', 'v':
			return strBytes(v)
		case 'q':
			return i.quoteIf('q', v)
		case 'd':
			return append(append(strBytes("%!d(string="), strBytes(v)...), ')')
		case 'x':
			if s, ok := v.(string); ok {
				return strBytes(fmt.Sprintf("%x", s))
			}
		}
	case *SV:
		switch verb {
		case 'd', 'v':
			if kindIsInt(v.K) {
				n := i.concretize(v)
				if kindSigned(v.K) {
					return strBytes(strconv.FormatInt(n, 10))
				}
				return strBytes(strconv.FormatUint(uint64(n), 10))
			}
			if v.K == types.Bool {
				return strBytes(strconv.FormatBool(i.truth(v)))
			}
		case 'c':
			return strBytes(i.runeToString(v))
		case 't':
			return strBytes(strconv.FormatBool(i.truth(v)))
		}
		panic(unsupported(fmt.Sprintf("fmt verb %%%c of symbolic %v", verb, v.K)))
	case bool, int, int8, int16, int32, int64, uint, uint8, uint16, uint32, uint64, uintptr, float32, float64:
		return strBytes(fmt.Sprintf("%"+flags+string(verb), v))
	case []value:
		// []byte and []interface{} etc.
		if verb == 's' || verb == 'v' || verb == 'c' {
			if sl, ok := x.t.Underlying().(*types.Slice); ok {
				if b, ok := sl.Elem().Underlying().(*types.Basic); ok && b.Kind() == types.Uint8 {
					if verb == 's' {
						return v
					}
					if verb == 'c' {
						// "% c" of a byte slice: [a b]
						out := []value{uint8('[')}
						for k, e := range v {
							if k > 0 {
								out = append(out, uint8(' '))
							}
							switch e := e.(type) {
							case uint8:
								out = append(out, strBytes(string(rune(e)))...)
							case *SV:
								out = append(out, strBytes(i.runeToString(i.symConvScalar(types.Int32, e).(*SV)))...)
							}
						}
						return append(out, uint8(']'))
					}
				}
			}
			out := []value{uint8('[')}
			elemT := x.t.Underlying().(*types.Slice).Elem()
			for k, e := range v {
				if k > 0 {
					out = append(out, uint8(' '))
				}
				ev, ok := e.(iface)
				if !ok {
					ev = iface{t: elemT, v: e}
				}
				out = append(out, i.formatValue('v', "", ev)...)
			}
			return append(out, uint8(']'))
		}
	case *omap:
		if verb == 'v' || verb == 's' {
			out := strBytes("map[")
			mt := x.t.Underlying().(*types.Map)
			// fmt sorts map keys
			type ent struct{ k, v []value }
			var ents []ent
			if v != nil {
				for n, key := range v.keys {
					kv, ok := key.(iface)
					if !ok {
						kv = iface{t: mt.Key(), v: key}
					}
					vv, ok := v.vals[n].(iface)
					if !ok {
						vv = iface{t: mt.Elem(), v: v.vals[n]}
					}
					ents = append(ents, ent{i.formatValue('v', "", kv), i.formatValue('v', "", vv)})
				}
			}
			for a := 1; a < len(ents); a++ {
				for b := a; b > 0; b-- {
					if !i.truth(i.mkBool(i.strLess(&SStr{ents[b].k}, &SStr{ents[b-1].k}, false))) {
						break
					}
					ents[b], ents[b-1] = ents[b-1], ents[b]
				}
			}
			for n, e := range ents {
				if n > 0 {
					out = append(out, uint8(' '))
				}
				out = append(out, e.k...)
				out = append(out, uint8(':'))
				out = append(out, e.v...)
			}
			return append(out, uint8(']'))
		}
	case rtype:
		if verb == 'v' || verb == 's' {
			return strBytes(goTypeString(v.t))
		}
	case *value:
		if verb == 'v' || verb == 's' || verb == 'p' {
			if v == nil {
				return strBytes("<nil>")
			}
			return strBytes("0xc000000000")
		}
	case structure:
		if verb == 'v' || verb == 's' {
			out := []value{uint8('{')}
			st, _ := x.t.Underlying().(*types.Struct)
			for k, e := range v {
				if k > 0 {
					out = append(out, uint8(' '))
				}
				ev, ok := e.(iface)
				if !ok && st != nil {
					ev = iface{t: st.Field(k).Type(), v: e}
				}
				out = append(out, i.formatValue('v', "", ev)...)
			}
			return append(out, uint8('}'))
		}
	}
	panic(unsupported(fmt.Sprintf("fmt verb %%%c of %s (%T)", verb, x.t, x.v)))
}

func (i *interpreter) quoteIf(verb byte, s value) []value {
	if verb != 'q' {
		return strBytes(s)
	}
	cs, ok := s.(string)
	if !ok {
		panic(unsupported("%q of a symbolic string"))
	}
	return strBytes(strconv.Quote(cs))
}

func goTypeString(t types.Type) string {
	s := types.TypeString(t, func(p *types.Package) string { return p.Name() })
	// reflect.Type.String (what %T prints) writes the empty interface and the
	// empty struct with a space
	s = strings.ReplaceAll(s, "interface{}", "interface {}")
	s = strings.ReplaceAll(s, "struct{}", "struct {}")
	return anyWord.ReplaceAllString(s, "interface {}")
}

var anyWord = regexp.MustCompile(`\bany\b`)

// sprintf returns the formatted bytes and the operand of the first %w.
func (i *interpreter) sprintf(format string, args []value) (out []value, wrapped *iface) {
	argi := 0
	for k := 0; k < len(format); k++ {
		c := format[k]
		if c != '%' {
			out = append(out, c)
			continue
		}
		k++
		if k >= len(format) {
			out = append(out, strBytes("%!(NOVERB)")...)
			break
		}
		start := k
		for k < len(format) && strings.IndexByte("+-# 0123456789.", format[k]) >= 0 {
			k++
		}
		if k >= len(format) {
			out = append(out, strBytes("%!(NOVERB)")...)
			break
		}
		flags := format[start:k]
		verb := format[k]
		if verb == '%' {
			out = append(out, uint8('%'))
			continue
		}
		if argi >= len(args) {
			out = append(out, strBytes("%!"+string(verb)+"(MISSING)")...)
			continue
		}
		arg := args[argi]
		argi++
		if verb == 'w' {
			if x, ok := arg.(iface); ok && x.t != nil && isErrorType(x.t, i) && wrapped == nil {
				cp := x
				wrapped = &cp
			}
		}
		out = append(out, i.formatValue(verb, flags, arg)...)
	}
	if argi < len(args) {
		out = append(out, strBytes("%!(EXTRA ")...)
		for n, a := range args[argi:] {
			if n > 0 {
				out = append(out, strBytes(", ")...)
			}
			x := a.(iface)
			if x.t == nil {
				out = append(out, strBytes("<nil>")...)
			} else {
				out = append(out, strBytes(goTypeString(x.t)+"=")...)
				out = append(out, i.formatValue('v', "", a)...)
			}
		}
		out = append(out, uint8(')'))
	}
	return
}

func ext۰fmt۰Sprintf(fr *frame, args []value) value {
	out, _ := fr.i.sprintf(concreteString(args[0]), args[1].([]value))
	return mkStr(out)
}

func ext۰fmt۰Sprint(fr *frame, args []value) value {
	var out []value
	list := args[0].([]value)
	wasStr := false
	for k, a := range list {
		x := a.(iface)
		_, isStr := x.v.(string)
		if _, ok := x.v.(*SStr); ok {
			isStr = true
		}
		if k > 0 && !wasStr && !isStr {
			out = append(out, uint8(' '))
		}
		wasStr = isStr
		out = append(out, fr.i.formatValue('v', "", a)...)
	}
	return mkStr(out)
}

// fmt.Errorf yields *fmt.wrapError{msg, err} or *fmt.wrapError-free errorString.
func ext۰fmt۰Errorf(fr *frame, args []value) value {
	i := fr.i
	out, wrapped := i.sprintf(concreteString(args[0]), args[1].([]value))
	msg := mkStr(out)
	fmtPkg := i.prog.ImportedPackage("fmt")
	if wrapped != nil {
		t := fmtPkg.Type("wrapError").Object().Type()
		var cell value = structure{msg, *wrapped}
		return iface{t: types.NewPointer(t), v: &cell}
	}
	errPkg := i.prog.ImportedPackage("errors")
	t := errPkg.Type("errorString").Object().Type()
	var cell value = structure{msg}
	return iface{t: types.NewPointer(t), v: &cell}
}

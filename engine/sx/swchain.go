package sx

// Switch-chain merging.  go/ssa lowers
//
//	switch b { case '-', '0', '1', ..., '9': BODY ... }
//
// into a chain of blocks "if b == c goto BODY else next".  Executed one `If`
// at a time a symbolic b forks once per case constant although all of them
// reach the same successor.  The chain is recognised statically and one
// decision is taken per *group* of consecutive comparisons with the same
// successor: the disjunction of the equalities.  This is the same control
// flow (the skipped blocks hold nothing but the comparison and its If, the
// comparison results have no other use, and the successor's phi-nodes, if
// any, receive identical values from every block of the group).

import (
	"go/token"
	"sync"

	"golang.org/x/tools/go/ssa"
)

type swGroup struct {
	blocks []*ssa.BasicBlock
	consts []*ssa.Const
	target *ssa.BasicBlock
}

type swChain struct {
	x      ssa.Value
	groups []swGroup
	last   *ssa.BasicBlock // last block of the chain
	els    *ssa.BasicBlock // successor when no comparison holds
}

var (
	swMu    sync.Mutex
	swCache = map[*ssa.BasicBlock]*swChain{}
)

// eqConst matches "x == const" as the condition of the block's final If.
func eqConst(b *ssa.BasicBlock) (x ssa.Value, c *ssa.Const, bin *ssa.BinOp, ok bool) {
	if len(b.Instrs) < 2 {
		return
	}
	ifi, isIf := b.Instrs[len(b.Instrs)-1].(*ssa.If)
	if !isIf {
		return
	}
	bin, isBin := ifi.Cond.(*ssa.BinOp)
	if !isBin || bin.Op != token.EQL || bin.Block() != b {
		return
	}
	if k, isC := bin.Y.(*ssa.Const); isC {
		return bin.X, k, bin, true
	}
	if k, isC := bin.X.(*ssa.Const); isC {
		return bin.Y, k, bin, true
	}
	return
}

func samePhiEdges(target *ssa.BasicBlock, a, b *ssa.BasicBlock) bool {
	ia, ib := -1, -1
	for k, p := range target.Preds {
		if p == a && ia < 0 {
			ia = k
		}
		if p == b && ib < 0 {
			ib = k
		}
	}
	if ia < 0 || ib < 0 {
		return false
	}
	for _, instr := range target.Instrs {
		phi, ok := instr.(*ssa.Phi)
		if !ok {
			break
		}
		ea, eb := phi.Edges[ia], phi.Edges[ib]
		if ea == eb {
			continue
		}
		ca, okA := ea.(*ssa.Const)
		cb, okB := eb.(*ssa.Const)
		if okA && okB && ca.Value != nil && cb.Value != nil && ca.Value.ExactString() == cb.Value.ExactString() && ca.Type() == cb.Type() {
			continue
		}
		return false
	}
	return true
}

// switchChain returns the chain headed by block b, or nil.
func switchChain(b *ssa.BasicBlock) *swChain {
	swMu.Lock()
	defer swMu.Unlock()
	if ch, ok := swCache[b]; ok {
		return ch
	}
	var ch *swChain
	defer func() { swCache[b] = ch }()
	x, c, _, ok := eqConst(b)
	if !ok {
		return nil
	}
	cand := &swChain{x: x}
	cur := b
	curC := c
	merged := false
	for {
		target := cur.Succs[0]
		if n := len(cand.groups); n > 0 && cand.groups[n-1].target == target && samePhiEdges(target, cand.groups[n-1].blocks[0], cur) {
			g := &cand.groups[n-1]
			g.blocks = append(g.blocks, cur)
			g.consts = append(g.consts, curC)
			merged = true
		} else {
			cand.groups = append(cand.groups, swGroup{blocks: []*ssa.BasicBlock{cur}, consts: []*ssa.Const{curC}, target: target})
		}
		cand.last = cur
		next := cur.Succs[1]
		// next continues the chain iff it is only reachable from cur and holds
		// exactly "t = x == const; if t"
		if len(next.Preds) != 1 || len(next.Instrs) != 2 || next == target {
			cand.els = next
			break
		}
		nx, nc, nbin, nok := eqConst(next)
		if !nok || nx != x || nbin != next.Instrs[0] || nbin.Referrers() == nil || len(*nbin.Referrers()) != 1 {
			cand.els = next
			break
		}
		cur, curC = next, nc
	}
	if merged {
		ch = cand
	}
	return ch
}

// execSwitchChain takes one decision per group; it returns false when the
// chain does not apply (x is concrete).
func (i *interpreter) execSwitchChain(fr *frame, ch *swChain) bool {
	xv := fr.get(ch.x)
	if _, sym := xv.(*SV); !sym {
		if _, isStr := xv.(*SStr); !isStr {
			return false
		}
	}
	tt := i.tt
	for _, g := range ch.groups {
		cond := tt.Bool(false)
		for _, c := range g.consts {
			eq := binop(i, token.EQL, ch.x.Type(), xv, constValue(c))
			cond = tt.Or(cond, i.term(eq))
		}
		if i.decide(cond, "switch") {
			fr.prevBlock, fr.block = g.blocks[0], g.target
			return true
		}
	}
	fr.prevBlock, fr.block = ch.last, ch.els
	return true
}

package sx

// UTF-8 decoding / encoding over symbolic bytes (mirrors unicode/utf8 and the
// runtime's string iteration and string(rune) conversion).

import (
	"go/token"
	"go/types"
	"io"
	"strings"
)

const lssTok = token.LSS

type stringIter struct {
	*strings.Reader
	i int
}

func (it *stringIter) next() tuple {
	okv := make(tuple, 3)
	ch, n, err := it.ReadRune()
	ok := err != io.EOF
	okv[0] = ok
	if ok {
		okv[1] = it.i
		okv[2] = ch
	}
	it.i += n
	return okv
}

type symStringIter struct {
	i   *interpreter
	b   []value
	pos int
}

func (it *symStringIter) next() tuple {
	if it.pos >= len(it.b) {
		return tuple{false, nil, nil}
	}
	start := it.pos
	r, size := it.i.decodeRune(it.b[it.pos:])
	it.pos += size
	return tuple{true, start, r}
}

func (i *interpreter) inRange(b *Term, lo, hi uint64) *Term {
	tt := i.tt
	return tt.And(tt.Cmp(OUle, tt.Const(b.S, lo), b), tt.Cmp(OUle, b, tt.Const(b.S, hi)))
}

// decodeRune decodes the first rune of b (len(b) > 0): (rune value, size).
func (i *interpreter) decodeRune(b []value) (value, int) {
	tt := i.tt
	const runeError = int32(0xFFFD)
	b0 := i.term(b[0])
	z := func(t *Term) *Term { return tt.ZExt(t, 32) }
	c32 := func(v uint64) *Term { return tt.Const(BV(32), v) }
	low6 := func(t *Term) *Term { return tt.BinBV(OAnd, z(t), c32(0x3F)) }
	if i.decide(tt.Cmp(OUlt, b0, tt.Const(BV(8), 0x80)), "utf8 ascii") {
		return i.mk(types.Int32, z(b0)), 1
	}
	cont := func(t *Term) *Term { return i.inRange(t, 0x80, 0xBF) }
	if i.decide(i.inRange(b0, 0xC2, 0xDF), "utf8 2-byte lead") {
		if len(b) < 2 {
			return runeError, 1
		}
		b1 := i.term(b[1])
		if !i.decide(cont(b1), "utf8 cont") {
			return runeError, 1
		}
		r := tt.BinBV(OOr, tt.BinBV(OShl, tt.BinBV(OAnd, z(b0), c32(0x1F)), c32(6)), low6(b1))
		return i.mk(types.Int32, r), 2
	}
	if i.decide(i.inRange(b0, 0xE0, 0xEF), "utf8 3-byte lead") {
		if len(b) < 3 {
			return runeError, 1
		}
		b1, b2 := i.term(b[1]), i.term(b[2])
		acc := tt.Ite(tt.Eq(b0, tt.Const(BV(8), 0xE0)), i.inRange(b1, 0xA0, 0xBF),
			tt.Ite(tt.Eq(b0, tt.Const(BV(8), 0xED)), i.inRange(b1, 0x80, 0x9F), cont(b1)))
		if !i.decide(tt.And(acc, cont(b2)), "utf8 cont") {
			return runeError, 1
		}
		r := tt.BinBV(OOr, tt.BinBV(OOr,
			tt.BinBV(OShl, tt.BinBV(OAnd, z(b0), c32(0x0F)), c32(12)),
			tt.BinBV(OShl, low6(b1), c32(6))), low6(b2))
		return i.mk(types.Int32, r), 3
	}
	if i.decide(i.inRange(b0, 0xF0, 0xF4), "utf8 4-byte lead") {
		if len(b) < 4 {
			return runeError, 1
		}
		b1, b2, b3 := i.term(b[1]), i.term(b[2]), i.term(b[3])
		acc := tt.Ite(tt.Eq(b0, tt.Const(BV(8), 0xF0)), i.inRange(b1, 0x90, 0xBF),
			tt.Ite(tt.Eq(b0, tt.Const(BV(8), 0xF4)), i.inRange(b1, 0x80, 0x8F), cont(b1)))
		if !i.decide(tt.And(acc, tt.And(cont(b2), cont(b3))), "utf8 cont") {
			return runeError, 1
		}
		r := tt.BinBV(OOr, tt.BinBV(OOr, tt.BinBV(OOr,
			tt.BinBV(OShl, tt.BinBV(OAnd, z(b0), c32(0x07)), c32(18)),
			tt.BinBV(OShl, low6(b1), c32(12))),
			tt.BinBV(OShl, low6(b2), c32(6))), low6(b3))
		return i.mk(types.Int32, r), 4
	}
	return runeError, 1
}

// runeToString is string(r) for a symbolic integer r.
func (i *interpreter) runeToString(r *SV) value {
	tt := i.tt
	w := kindWidth(r.K)
	// out of int32 range -> U+FFFD
	var t *Term
	if w > 32 {
		var fits *Term
		if kindSigned(r.K) {
			fits = tt.Eq(tt.SExt(tt.Extract(r.T, 31, 0), w), r.T)
		} else {
			fits = tt.Cmp(OUle, r.T, tt.Const(r.T.S, 0x7fffffff))
		}
		if !i.decide(fits, "rune fits int32") {
			return "�"
		}
		t = tt.Extract(r.T, 31, 0)
	} else if w < 32 {
		if kindSigned(r.K) {
			t = tt.SExt(r.T, 32)
		} else {
			t = tt.ZExt(r.T, 32)
		}
	} else {
		t = r.T
	}
	c := func(v uint64) *Term { return tt.Const(BV(32), v) }
	b8 := func(x *Term) value { return i.mk(types.Uint8, tt.Extract(x, 7, 0)) }
	or := func(a *Term, k uint64) *Term { return tt.BinBV(OOr, a, c(k)) }
	and := func(a *Term, k uint64) *Term { return tt.BinBV(OAnd, a, c(k)) }
	shr := func(a *Term, k uint64) *Term { return tt.BinBV(OLShr, a, c(k)) }
	if i.decide(tt.Cmp(OUlt, t, c(0x80)), "rune < 0x80") {
		return mkStr([]value{b8(t)})
	}
	if i.decide(tt.Cmp(OUlt, t, c(0x800)), "rune < 0x800") {
		return mkStr([]value{b8(or(shr(t, 6), 0xC0)), b8(or(and(t, 0x3F), 0x80))})
	}
	bad := tt.Or(tt.Cmp(OUlt, c(0x10FFFF), t), tt.And(tt.Cmp(OUle, c(0xD800), t), tt.Cmp(OUle, t, c(0xDFFF))))
	if i.decide(bad, "invalid rune") {
		return "�"
	}
	if i.decide(tt.Cmp(OUlt, t, c(0x10000)), "rune < 0x10000") {
		return mkStr([]value{b8(or(shr(t, 12), 0xE0)), b8(or(and(shr(t, 6), 0x3F), 0x80)), b8(or(and(t, 0x3F), 0x80))})
	}
	return mkStr([]value{b8(or(shr(t, 18), 0xF0)), b8(or(and(shr(t, 12), 0x3F), 0x80)),
		b8(or(and(shr(t, 6), 0x3F), 0x80)), b8(or(and(t, 0x3F), 0x80))})
}

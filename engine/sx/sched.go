package sx

// Goroutines under the engine's own scheduler, and a happens-before race
// monitor (DESIGN.md §3.5).  Exactly one thread runs at a time (baton
// passing between host goroutines).  Scheduling points are synchronisation
// operations; at each, the next thread to run is an explored choice.

import (
	"fmt"
	"go/token"
	"os"

	"golang.org/x/tools/go/ssa"
)

// YieldEverywhere restores a scheduling choice after every spawn and unlock
// (for cross-checking the reduced set of scheduling points).
var YieldEverywhere = os.Getenv("GOSYM_YIELD_EVERYWHERE") != ""

type vclock []int

func (a vclock) join(b vclock) vclock {
	for len(a) < len(b) {
		a = append(a, 0)
	}
	for k, v := range b {
		if v > a[k] {
			a[k] = v
		}
	}
	return a
}

func (a vclock) get(t int) int {
	if t < len(a) {
		return a[t]
	}
	return 0
}

func (a vclock) copyOf() vclock { return append(vclock(nil), a...) }

type threadAbort struct{}

type thread struct {
	id       int
	resume   chan bool // true = run, false = abort
	done     bool
	started  bool
	blocked  *lockState
	blockedW bool // blocked as a writer of an RWMutex: readers hold it off too
	waiting  bool // in Wait()
	vc       vclock
	depth    int
	name     string
}

type lockState struct {
	holder *thread
	vc     vclock
	// sync.RWMutex: shared holders, and the join of their release clocks
	readers int
	rvc     vclock
}

type cellState struct {
	wTid, wClk int
	wPos       string
	reads      map[int]int
	rPos       map[int]string
}

type scheduler struct {
	threads     []*thread
	locks       map[*value]*lockState
	cells       map[interface{}]*cellState
	wgs         map[*value]*wgState
	failure     interface{} // panic raised in a non-main thread
	preemptions int
	mainWake    chan bool
	races       int
}

type wgState struct {
	n  int
	vc vclock
}

func (i *interpreter) ensureSched() *scheduler {
	if i.sched == nil {
		s := &scheduler{locks: map[*value]*lockState{}, cells: map[interface{}]*cellState{}, wgs: map[*value]*wgState{}}
		main := &thread{id: 0, resume: make(chan bool, 1), started: true, vc: vclock{1}, name: "main"}
		s.threads = []*thread{main}
		i.sched = s
		i.cur = main
	}
	return i.sched
}

// spawn starts a new thread running fn(args).
func (i *interpreter) spawn(instr *ssa.Go, fn value, args []value) {
	s := i.ensureSched()
	if len(s.threads) >= i.run.cfg.MaxThreads {
		panic(unsupported(fmt.Sprintf("more than %d threads", i.run.cfg.MaxThreads)))
	}
	parent := i.cur
	t := &thread{id: len(s.threads), resume: make(chan bool, 1)}
	t.vc = parent.vc.copyOf()
	for len(t.vc) <= t.id {
		t.vc = append(t.vc, 0)
	}
	t.vc[t.id] = 1
	parent.vc[parent.id]++
	s.threads = append(s.threads, t)
	pos := token.NoPos
	if instr != nil {
		pos = instr.Pos()
	}
	go func() {
		if run := <-t.resume; !run {
			return
		}
		defer func() {
			p := recover()
			t.done = true
			if p != nil {
				if _, isAbort := p.(*threadAbort); isAbort {
					return
				}
				if s.failure == nil {
					s.failure = p
				}
				// wake main to re-raise
				i.cur = s.threads[0]
				i.depth = s.threads[0].depth
				s.threads[0].resume <- true
				return
			}
			// normal exit: hand the baton on
			i.handOff(t, "exit")
		}()
		t.started = true
		call(i, nil, pos, fn, args)
	}()
	// No scheduling choice here: the child is runnable from now on and is
	// first chosen at a later scheduling point of the running thread (its next
	// lock acquisition, wait or exit).  Interleavings that differ only in
	// where the non-synchronising code of two threads overlaps are
	// equivalent as long as that code is race-free, which the monitor checks
	// through vector clocks irrespective of the order actually run.
	if YieldEverywhere {
		i.yield("go")
	}
}

func (i *interpreter) enabled() []*thread {
	s := i.sched
	var out []*thread
	// current thread first, so that choice 0 means "continue"
	add := func(t *thread) {
		if t.done {
			return
		}
		if t.blocked != nil && (t.blocked.holder != nil || (t.blockedW && t.blocked.readers > 0)) {
			return
		}
		if t.waiting {
			for _, u := range s.threads {
				if u != t && !u.done {
					return
				}
			}
		}
		out = append(out, t)
	}
	add(i.cur)
	for _, t := range s.threads {
		if t != i.cur {
			add(t)
		}
	}
	return out
}

// yield is a scheduling point for the current thread.
func (i *interpreter) yield(what string) {
	if i.sched == nil {
		return
	}
	s := i.sched
	if s.failure != nil {
		panic(&threadAbort{})
	}
	en := i.enabled()
	if len(en) == 0 {
		panic(targetPanic{iface{i.runtimeErrorString, "all goroutines are asleep - deadlock!"}})
	}
	var next *thread
	curEnabled := en[0] == i.cur
	maxPreempt := i.run.cfg.MaxPreempt
	if i.run.maxPreempt > 0 && i.run.maxPreempt < maxPreempt {
		maxPreempt = i.run.maxPreempt // the harness's own, tighter bound (sym.Preemptions)
	}
	if curEnabled && (len(en) == 1 || s.preemptions >= maxPreempt) {
		next = i.cur
		// recorded although forced: the native replay follows the schedule
		// record by record (harness/sym/sched.go)
		i.run.inputs = append(i.run.inputs, InputRec{Name: "sched:" + what, Kind: "sched", N: 1, Vals: []uint64{uint64(next.id)}})
	} else {
		k := i.choice(len(en))
		i.run.inputs = append(i.run.inputs, InputRec{Name: "sched:" + what, Kind: "sched", N: len(en), Vals: []uint64{uint64(en[k].id)}})
		next = en[k]
		if curEnabled && next != i.cur {
			s.preemptions++
		}
	}
	i.switchTo(next)
}

func (i *interpreter) switchTo(next *thread) {
	cur := i.cur
	if next == cur {
		return
	}
	cur.depth = i.depth
	i.cur = next
	i.depth = next.depth
	next.resume <- true
	if run := <-cur.resume; !run {
		panic(&threadAbort{})
	}
	if i.sched.failure != nil && cur.id == 0 {
		p := i.sched.failure
		panic(p)
	}
}

// handOff passes the baton on when thread t has finished.
func (i *interpreter) handOff(t *thread, what string) {
	s := i.sched
	en := i.enabled()
	if len(en) == 0 {
		// everything else blocked: deadlock, report through main
		if s.failure == nil {
			s.failure = targetPanic{iface{i.runtimeErrorString, "all goroutines are asleep - deadlock!"}}
		}
		i.cur = s.threads[0]
		i.depth = s.threads[0].depth
		s.threads[0].resume <- true
		return
	}
	var next *thread
	func() {
		defer func() {
			if p := recover(); p != nil {
				if s.failure == nil {
					s.failure = p
				}
				next = s.threads[0]
			}
		}()
		k := i.choice(len(en))
		i.run.inputs = append(i.run.inputs, InputRec{Name: "sched:" + what, Kind: "sched", N: len(en), Vals: []uint64{uint64(en[k].id)}})
		next = en[k]
	}()
	i.cur = next
	i.depth = next.depth
	next.resume <- true
}

// waitAll blocks the current thread until every other thread has finished.
func (i *interpreter) waitAll() {
	if i.sched == nil {
		return
	}
	s := i.sched
	cur := i.cur
	cur.waiting = true
	for {
		all := true
		for _, t := range s.threads {
			if t != cur && !t.done {
				all = false
			}
		}
		if all {
			break
		}
		i.yield("wait")
	}
	cur.waiting = false
	for _, t := range s.threads {
		if t != cur {
			cur.vc = cur.vc.join(t.vc)
		}
	}
}

// finish aborts the threads still parked when the run ends.
func (s *scheduler) finish(i *interpreter) {
	for _, t := range s.threads[1:] {
		if !t.done {
			select {
			case t.resume <- false:
			default:
			}
		}
	}
}

// ---------------------------------------------------------------- race monitor

func (i *interpreter) posString() string { return "" }

func (i *interpreter) access(p *value, write bool) {
	if i.sched == nil || p == nil {
		return
	}
	i.accessCell(p, write)
}

func (i *interpreter) accessMap(m *omap, write bool) {
	if i.sched == nil || m == nil {
		return
	}
	i.accessCell(m, write)
}

func (i *interpreter) accessCell(key interface{}, write bool) {
	s := i.sched
	t := i.cur
	c := s.cells[key]
	if c == nil {
		c = &cellState{wTid: -1}
		s.cells[key] = c
	}
	race := ""
	if c.wTid >= 0 && c.wTid != t.id && c.wClk > t.vc.get(c.wTid) {
		race = fmt.Sprintf("write by thread %d / %s by thread %d", c.wTid, map[bool]string{true: "write", false: "read"}[write], t.id)
	}
	if write {
		for u, clk := range c.reads {
			if u != t.id && clk > t.vc.get(u) {
				race = fmt.Sprintf("read by thread %d / write by thread %d", u, t.id)
			}
		}
		c.wTid, c.wClk = t.id, t.vc.get(t.id)
		c.reads = nil
	} else {
		if c.reads == nil {
			c.reads = map[int]int{}
		}
		c.reads[t.id] = t.vc.get(t.id)
	}
	if race != "" {
		s.races++
		panic(targetPanic{iface{i.runtimeErrorString, "DATA RACE: " + race}})
	}
}

// ---------------------------------------------------------------- sync models

func mutexCell(args []value) *value {
	p := args[0].(*value)
	if p == nil {
		panic(targetRuntimeError("invalid memory address or nil pointer dereference"))
	}
	return p
}

func ext۰Mutex۰Lock(fr *frame, args []value) value {
	i := fr.i
	p := mutexCell(args)
	if i.sched == nil {
		// single-threaded: track the held bit in the struct itself
		st := (*p).(structure)
		if asInt64(st[0]) != 0 {
			panic(targetPanic{iface{i.runtimeErrorString, "all goroutines are asleep - deadlock! (sync.Mutex locked twice)"}})
		}
		st[0] = int32(1)
		return nil
	}
	s := i.sched
	i.yield("lock")
	l := s.locks[p]
	if l == nil {
		l = &lockState{}
		s.locks[p] = l
		// a mutex locked before the first spawn
		if st := (*p).(structure); asInt64(st[0]) != 0 {
			l.holder = s.threads[0]
		}
	}
	for l.holder != nil {
		i.cur.blocked = l
		i.yield("blocked")
	}
	i.cur.blocked = nil
	l.holder = i.cur
	i.cur.vc = i.cur.vc.join(l.vc)
	return nil
}

func ext۰Mutex۰Unlock(fr *frame, args []value) value {
	i := fr.i
	p := mutexCell(args)
	if i.sched == nil {
		st := (*p).(structure)
		if asInt64(st[0]) == 0 {
			panic(targetPanic{iface{i.runtimeErrorString, "sync: unlock of unlocked mutex"}})
		}
		st[0] = int32(0)
		return nil
	}
	s := i.sched
	l := s.locks[p]
	if l == nil {
		l = &lockState{}
		s.locks[p] = l
		if st := (*p).(structure); asInt64(st[0]) != 0 {
			l.holder = s.threads[0]
			st[0] = int32(0)
		}
	}
	if l.holder == nil {
		panic(targetPanic{iface{i.runtimeErrorString, "sync: unlock of unlocked mutex"}})
	}
	l.holder = nil
	l.vc = i.cur.vc.copyOf()
	i.cur.vc[i.cur.id]++
	// the releasing thread's next scheduling point (its next acquisition,
	// wait or exit) is where another thread may take over
	if YieldEverywhere {
		i.yield("unlock")
	}
	return nil
}

// sync.RWMutex: Lock excludes everything, RLock excludes writers only.  The
// state lives in the scheduler (created on first use), never in the struct.
func rwState(i *interpreter, args []value) *lockState {
	s := i.ensureSched()
	p := mutexCell(args)
	l := s.locks[p]
	if l == nil {
		l = &lockState{}
		s.locks[p] = l
	}
	return l
}

func ext۰RWMutex۰Lock(fr *frame, args []value) value {
	i := fr.i
	l := rwState(i, args)
	i.yield("lock")
	for l.holder != nil || l.readers > 0 {
		i.cur.blocked, i.cur.blockedW = l, true
		i.yield("blocked")
	}
	i.cur.blocked, i.cur.blockedW = nil, false
	l.holder = i.cur
	i.cur.vc = i.cur.vc.join(l.vc).join(l.rvc)
	return nil
}

func ext۰RWMutex۰Unlock(fr *frame, args []value) value {
	i := fr.i
	l := rwState(i, args)
	if l.holder == nil {
		panic(targetPanic{iface{i.runtimeErrorString, "sync: Unlock of unlocked RWMutex"}})
	}
	l.holder = nil
	l.vc = i.cur.vc.copyOf()
	i.cur.vc[i.cur.id]++
	if YieldEverywhere {
		i.yield("unlock")
	}
	return nil
}

func ext۰RWMutex۰RLock(fr *frame, args []value) value {
	i := fr.i
	l := rwState(i, args)
	i.yield("lock")
	for l.holder != nil {
		i.cur.blocked, i.cur.blockedW = l, false
		i.yield("blocked")
	}
	i.cur.blocked = nil
	l.readers++
	i.cur.vc = i.cur.vc.join(l.vc)
	return nil
}

func ext۰RWMutex۰RUnlock(fr *frame, args []value) value {
	i := fr.i
	l := rwState(i, args)
	if l.readers == 0 {
		panic(targetPanic{iface{i.runtimeErrorString, "sync: RUnlock of unlocked RWMutex"}})
	}
	l.readers--
	l.rvc = l.rvc.join(i.cur.vc)
	i.cur.vc[i.cur.id]++
	if YieldEverywhere {
		i.yield("unlock")
	}
	return nil
}

func ext۰WaitGroup۰Add(fr *frame, args []value) value {
	i := fr.i
	s := i.ensureSched()
	p := mutexCell(args)
	w := s.wgs[p]
	if w == nil {
		w = &wgState{}
		s.wgs[p] = w
	}
	w.n += int(asInt64(args[1]))
	if w.n < 0 {
		panic(targetPanic{iface{i.runtimeErrorString, "sync: negative WaitGroup counter"}})
	}
	return nil
}

func ext۰WaitGroup۰Done(fr *frame, args []value) value {
	i := fr.i
	s := i.ensureSched()
	p := mutexCell(args)
	w := s.wgs[p]
	if w == nil || w.n <= 0 {
		panic(targetPanic{iface{i.runtimeErrorString, "sync: negative WaitGroup counter"}})
	}
	w.n--
	w.vc = w.vc.join(i.cur.vc)
	i.cur.vc[i.cur.id]++
	i.yield("wg.done")
	return nil
}

func ext۰WaitGroup۰Wait(fr *frame, args []value) value {
	i := fr.i
	s := i.ensureSched()
	p := mutexCell(args)
	w := s.wgs[p]
	if w == nil {
		return nil
	}
	for w.n > 0 {
		// block until another thread makes progress
		en := i.enabled()
		if len(en) == 1 && en[0] == i.cur {
			panic(targetPanic{iface{i.runtimeErrorString, "all goroutines are asleep - deadlock! (WaitGroup)"}})
		}
		i.yieldAway("wg.wait")
	}
	i.cur.vc = i.cur.vc.join(w.vc)
	return nil
}

// yieldAway forces a switch to some other enabled thread.
func (i *interpreter) yieldAway(what string) {
	en := i.enabled()
	var others []*thread
	for _, t := range en {
		if t != i.cur {
			others = append(others, t)
		}
	}
	if len(others) == 0 {
		panic(targetPanic{iface{i.runtimeErrorString, "all goroutines are asleep - deadlock!"}})
	}
	k := i.choice(len(others))
	i.run.inputs = append(i.run.inputs, InputRec{Name: "sched:" + what, Kind: "sched", N: len(others), Vals: []uint64{uint64(others[k].id)}})
	i.switchTo(others[k])
}

package sx

// Engine-side implementation of the harness API (package verif/harness/sym).

import (
	"fmt"
	"go/types"
	"math"
	"sort"
	"strconv"
	"strings"
)

var symAPI = map[string]externalFn{}

func init() {
	scalar := func(kind string, k types.BasicKind) externalFn {
		return func(fr *frame, args []value) value {
			i := fr.i
			name := concreteString(args[0])
			t := i.run.freshInput(name, kind, kindSort(k), 1)[0]
			return &SV{K: k, T: t}
		}
	}
	symAPI["Bool"] = scalar("bool", types.Bool)
	symAPI["Byte"] = scalar("uint8", types.Uint8)
	symAPI["Int"] = scalar("int", types.Int)
	symAPI["Int8"] = scalar("int8", types.Int8)
	symAPI["Int16"] = scalar("int16", types.Int16)
	symAPI["Int32"] = scalar("int32", types.Int32)
	symAPI["Int64"] = scalar("int64", types.Int64)
	symAPI["Uint"] = scalar("uint", types.Uint)
	symAPI["Uint8"] = scalar("uint8", types.Uint8)
	symAPI["Uint16"] = scalar("uint16", types.Uint16)
	symAPI["Uint32"] = scalar("uint32", types.Uint32)
	symAPI["Uint64"] = scalar("uint64", types.Uint64)
	symAPI["Float32"] = scalar("float32", types.Float32)
	symAPI["Float64"] = scalar("float64", types.Float64)

	symAPI["Bytes"] = func(fr *frame, args []value) value {
		i := fr.i
		n := int(asInt64(args[1]))
		ts := i.run.freshInput(concreteString(args[0]), "bytes", BV(8), n)
		out := make([]value, n)
		for k, t := range ts {
			out[k] = &SV{K: types.Uint8, T: t}
		}
		return out
	}
	symAPI["String"] = func(fr *frame, args []value) value {
		i := fr.i
		n := int(asInt64(args[1]))
		ts := i.run.freshInput(concreteString(args[0]), "string", BV(8), n)
		out := make([]value, n)
		for k, t := range ts {
			out[k] = &SV{K: types.Uint8, T: t}
		}
		return mkStr(out)
	}
	symAPI["Choice"] = func(fr *frame, args []value) value {
		i := fr.i
		k := int(asInt64(args[1]))
		v := i.choice(k)
		i.run.inputs = append(i.run.inputs, InputRec{Name: concreteString(args[0]), Kind: "choice", N: k, Vals: []uint64{uint64(v)}})
		return v
	}
	symAPI["Assume"] = func(fr *frame, args []value) value {
		fr.i.assume(fr.i.term(args[0]))
		return nil
	}
	symAPI["Assert"] = func(fr *frame, args []value) value {
		i := fr.i
		label := concreteString(args[1])
		i.run.asserts[label]++
		if !i.decide(i.term(args[0]), "assert "+label) {
			i.run.pendingViol = &Violation{Kind: "assert", Label: label, Msg: "assertion failed: " + label, KnownID: i.run.knownHit}
			panic(pathEnd{"violation"})
		}
		return nil
	}
	symAPI["Cover"] = func(fr *frame, args []value) value {
		fr.i.run.covers[concreteString(args[0])]++
		return nil
	}
	symAPI["Known"] = func(fr *frame, args []value) value {
		i := fr.i
		id := concreteString(args[0])
		region := i.term(args[1])
		cfg := i.run.cfg
		if _, listed := cfg.Known[id]; !listed {
			return false
		}
		if cfg.FindingID == id {
			// finding pass: stay inside the region and run the code
			i.assume(region)
			i.run.knownHit = id
			return false
		}
		if i.decide(region, "known "+id) {
			i.run.cutBy = id
			return true
		}
		return false
	}
	symAPI["Cut"] = func(fr *frame, args []value) value {
		panic(pathEnd{"cut"})
	}
	symAPI["Observe"] = func(fr *frame, args []value) value {
		fr.i.run.observes = append(fr.i.run.observes, obsRec{concreteString(args[0]), args[1]})
		return nil
	}
	symAPI["DeepEqual"] = func(fr *frame, args []value) value {
		return fr.i.deepEqual(args[0], args[1])
	}
	symAPI["And"] = func(fr *frame, args []value) value {
		acc := fr.i.tt.Bool(true)
		for _, a := range args[0].([]value) {
			acc = fr.i.tt.And(acc, fr.i.term(a))
		}
		return fr.i.mkBool(acc)
	}
	symAPI["Or"] = func(fr *frame, args []value) value {
		acc := fr.i.tt.Bool(false)
		for _, a := range args[0].([]value) {
			acc = fr.i.tt.Or(acc, fr.i.term(a))
		}
		return fr.i.mkBool(acc)
	}
	symAPI["Implies"] = func(fr *frame, args []value) value {
		return fr.i.mkBool(fr.i.tt.Or(fr.i.tt.Not(fr.i.term(args[0])), fr.i.term(args[1])))
	}
	symAPI["Budget"] = func(fr *frame, args []value) value {
		// instruction budget for the rest of the path (the harness derives it
		// from its input size: an unwinding assertion)
		fr.i.budget = fr.i.steps + asInt64(args[0])
		return nil
	}
	symAPI["Contains"] = func(fr *frame, args []value) value {
		i := fr.i
		h, n := strBytes(args[0]), strBytes(args[1])
		acc := i.tt.Bool(false)
		for k := 0; k+len(n) <= len(h); k++ {
			acc = i.tt.Or(acc, i.term(i.strEq(&SStr{h[k : k+len(n)]}, &SStr{n})))
		}
		return i.mkBool(acc)
	}
	symAPI["Thorough"] = func(fr *frame, args []value) value { return fr.i.run.cfg.Thorough }
	symAPI["Symbolic"] = func(fr *frame, args []value) value { return true }
	symAPI["MapOrder"] = func(fr *frame, args []value) value {
		fr.i.run.mapOrderSym = fr.i.truth(args[0])
		return nil
	}
	symAPI["Go"] = func(fr *frame, args []value) value {
		fr.i.spawn(nil, args[0], nil)
		return nil
	}
	symAPI["Wait"] = func(fr *frame, args []value) value {
		fr.i.waitAll()
		return nil
	}
	symAPI["Preemptions"] = func(fr *frame, args []value) value {
		fr.i.run.maxPreempt = int(asInt64(args[0]))
		return nil
	}
	symAPI["Stamp"] = func(fr *frame, args []value) value {
		fr.i.run.stamp++
		return fr.i.run.stamp
	}
	symAPI["Yield"] = func(fr *frame, args []value) value {
		fr.i.yield("yield")
		return nil
	}
}

func sortTag(s Sort) string {
	switch s.K {
	case KBool:
		return "b"
	case KFP:
		return fmt.Sprintf("f%d", s.W)
	}
	return fmt.Sprintf("v%d", s.W)
}

func concreteString(v value) string {
	if s, ok := v.(string); ok {
		return s
	}
	panic(unsupported(fmt.Sprintf("expected a concrete string, got %T", v)))
}

func (r *Run) freshInput(name, kind string, s Sort, n int) []*Term {
	ts := make([]*Term, n)
	for k := range ts {
		ts[k] = r.w.tt.Var(s, fmt.Sprintf("in%d_%d_%s", len(r.inputs), k, sortTag(s)))
	}
	r.inputs = append(r.inputs, InputRec{Name: name, Kind: kind, N: n, terms: ts})
	return ts
}

// deepEqual returns a bool or symbolic bool: structural equality of two
// interface values (same dynamic types; numeric leaves by value).
func (i *interpreter) deepEqual(a, b value) value {
	tt := i.tt
	var eq func(a, b value) *Term
	eq = func(a, b value) *Term {
		switch x := a.(type) {
		case iface:
			y, ok := b.(iface)
			if !ok {
				return tt.Bool(false)
			}
			if !sameType(x.t, y.t) {
				return tt.Bool(false)
			}
			if x.t == nil {
				return tt.Bool(true)
			}
			return eq(x.v, y.v)
		case []value:
			y, ok := b.([]value)
			if !ok || len(x) != len(y) || (x == nil) != (y == nil) {
				return tt.Bool(false)
			}
			acc := tt.Bool(true)
			for k := range x {
				acc = tt.And(acc, eq(x[k], y[k]))
				if acc.IsConst() && acc.Val == 0 {
					return acc
				}
			}
			return acc
		case *omap:
			y, ok := b.(*omap)
			if !ok || x.len() != y.len() || (x == nil) != (y == nil) {
				return tt.Bool(false)
			}
			acc := tt.Bool(true)
			if x == nil {
				return acc
			}
			for k, key := range x.keys {
				v2, ok := y.lookup(i, key)
				if !ok {
					return tt.Bool(false)
				}
				acc = tt.And(acc, eq(x.vals[k], v2))
				if acc.IsConst() && acc.Val == 0 {
					return acc
				}
			}
			return acc
		case structure:
			y, ok := b.(structure)
			if !ok || len(x) != len(y) {
				return tt.Bool(false)
			}
			acc := tt.Bool(true)
			for k := range x {
				acc = tt.And(acc, eq(x[k], y[k]))
			}
			return acc
		case array:
			y, ok := b.(array)
			if !ok || len(x) != len(y) {
				return tt.Bool(false)
			}
			acc := tt.Bool(true)
			for k := range x {
				acc = tt.And(acc, eq(x[k], y[k]))
			}
			return acc
		case *value:
			y, ok := b.(*value)
			if !ok {
				return tt.Bool(false)
			}
			if x == y {
				return tt.Bool(true)
			}
			if x == nil || y == nil {
				return tt.Bool(false)
			}
			return eq(*x, *y)
		case string, *SStr:
			switch b.(type) {
			case string, *SStr:
				return i.term(i.strEq(a, b))
			}
			return tt.Bool(false)
		case float32, float64:
			// DeepEqual semantics: NaN != NaN
			return i.term(i.scalarEq(a, b))
		case bool, int, int8, int16, int32, int64, uint, uint8, uint16, uint32, uint64, uintptr, *SV:
			if kindOf(a) != kindOf(b) {
				return tt.Bool(false)
			}
			return i.term(i.scalarEq(a, b))
		case nil:
			return tt.Bool(b == nil)
		}
		panic(unsupported(fmt.Sprintf("DeepEqual of %T", a)))
	}
	return i.mkBool(eq(a, b))
}

// render produces the canonical text of an observed value under the run's
// model; the native sym.Observe produces the same text.
func (r *Run) render(v value) string {
	env := r.env()
	memo := map[int]uint64{}
	scalar := func(k types.BasicKind, bits uint64) string {
		switch {
		case k == types.Bool:
			return strconv.FormatBool(bits&1 == 1)
		case kindIsFloat(k):
			var f float64
			if k == types.Float32 {
				f = float64(math.Float32frombits(uint32(bits)))
			} else {
				f = math.Float64frombits(bits)
			}
			return strconv.FormatFloat(f, 'g', -1, 64)
		case kindSigned(k):
			return strconv.FormatInt(sext64(bits, kindWidth(k)), 10)
		default:
			return strconv.FormatUint(bits, 10)
		}
	}
	var w func(v value) string
	w = func(v value) string {
		switch x := v.(type) {
		case nil:
			return "nil"
		case iface:
			if x.t == nil {
				return "nil"
			}
			if isErrorType(x.t, r.i) {
				if p, ok := x.v.(*value); ok && p == nil {
					return typeTag(x.t) + ":nil"
				}
				return "error:" + w(r.i.callError(x))
			}
			return typeTag(x.t) + ":" + w(x.v)
		case *SV:
			return scalar(x.K, r.w.tt.Eval(x.T, env, memo))
		case bool, int, int8, int16, int32, int64, uint, uint8, uint16, uint32, uint64, uintptr, float32, float64:
			return scalar(kindOf(x), r.i.term(x).Val)
		case string:
			return strconv.Quote(x)
		case *SStr:
			buf := make([]byte, len(x.B))
			for k, b := range x.B {
				switch b := b.(type) {
				case uint8:
					buf[k] = b
				case *SV:
					buf[k] = byte(r.w.tt.Eval(b.T, env, memo))
				}
			}
			return strconv.Quote(string(buf))
		case []value:
			if x == nil {
				return "nil"
			}
			parts := make([]string, len(x))
			for k, e := range x {
				parts[k] = w(e)
			}
			return "[" + strings.Join(parts, ",") + "]"
		case *omap:
			if x == nil {
				return "nil"
			}
			parts := make([]string, len(x.keys))
			for n, key := range x.keys {
				parts[n] = w(key) + ":" + w(x.vals[n])
			}
			sort.Strings(parts)
			return "{" + strings.Join(parts, ",") + "}"
		case *value:
			if x == nil {
				return "nil"
			}
			return "&"
		case structure:
			parts := make([]string, len(x))
			for k, e := range x {
				parts[k] = w(e)
			}
			return "(" + strings.Join(parts, ",") + ")"
		default:
			return fmt.Sprintf("<%T>", v)
		}
	}
	return w(v)
}

func typeTag(t types.Type) string {
	s := types.TypeString(t, func(p *types.Package) string { return p.Name() })
	s = strings.ReplaceAll(s, "interface {}", "interface{}")
	return strings.ReplaceAll(s, "interface{}", "any")
}

package sx

// SMT terms: a hash-consed DAG with constant folding.  Integer sorts are
// bit-vectors of the exact Go width (wrap-around semantics), floats are IEEE
// FP sorts, booleans are Bool.  See DESIGN.md Appendix A.

import (
	"fmt"
	"math"
	"math/bits"
	"strconv"
	"strings"
	"sync"
)

type SortKind uint8

const (
	KBool SortKind = iota
	KBV
	KFP
)

type Sort struct {
	K SortKind
	W int // bit width (BV: 8,16,32,64 or anything for intermediates; FP: 32/64)
}

var (
	SortBool = Sort{KBool, 0}
	SortF32  = Sort{KFP, 32}
	SortF64  = Sort{KFP, 64}
)

func BV(w int) Sort { return Sort{KBV, w} }

func (s Sort) SMT() string {
	switch s.K {
	case KBool:
		return "Bool"
	case KBV:
		return fmt.Sprintf("(_ BitVec %d)", s.W)
	case KFP:
		if s.W == 32 {
			return "(_ FloatingPoint 8 24)"
		}
		return "(_ FloatingPoint 11 53)"
	}
	panic("bad sort")
}

type Op uint8

const (
	OConst Op = iota
	OVar
	// bv
	OAdd
	OSub
	OMul
	OSDiv
	OUDiv
	OSRem
	OURem
	OAnd
	OOr
	OXor
	ONot // bvnot
	ONeg
	OShl
	OLShr
	OAShr
	OExtract // p0=hi p1=lo
	OZExt    // p0 = extra bits
	OSExt
	OConcat
	OIte
	// predicates
	OEq
	OUlt
	OUle
	OSlt
	OSle
	// bool
	OBNot
	OBAnd
	OBOr
	// fp
	OFAdd
	OFSub
	OFMul
	OFDiv
	OFNeg
	OFEq
	OFLt
	OFLe
	OFIsNaN
	OFIsInf
	OFToFP   // fp -> fp of sort (RNE)
	OSToFP   // signed bv -> fp (RNE)
	OUToFP   // unsigned bv -> fp (RNE)
	OFToSBV  // fp -> signed bv of width W (RTZ); unspecified when out of range
	OFToUBV  // fp -> unsigned bv (RTZ)
	OFFromBV // reinterpret IEEE bits as fp
	OFRound  // fp.roundToIntegral, P0 = rounding mode (0 RTZ, 1 RTN, 2 RTP, 3 RNE)
	OFAbs
)

type Term struct {
	Op   Op
	S    Sort
	Args []*Term
	Val  uint64 // OConst: value bits (bool: 0/1; fp: IEEE bits)
	P0   int
	P1   int
	Name string // OVar
	ID   int
}

func (t *Term) IsConst() bool { return t.Op == OConst }

// TermTable hash-conses terms.  One per worker (not shared between
// goroutines except under its own lock).
type constKey struct {
	s Sort
	v uint64
}

type TermTable struct {
	mu     sync.Mutex
	byKey  map[string]*Term
	consts map[constKey]*Term
	all    []*Term
}

func NewTermTable() *TermTable {
	return &TermTable{byKey: map[string]*Term{}, consts: map[constKey]*Term{}}
}

func (tt *TermTable) intern(t *Term) *Term {
	var sb strings.Builder
	sb.WriteByte(byte(t.Op))
	sb.WriteByte(byte(t.S.K))
	sb.WriteString(strconv.Itoa(t.S.W))
	sb.WriteByte('|')
	switch t.Op {
	case OConst:
		sb.WriteString(strconv.FormatUint(t.Val, 16))
	case OVar:
		sb.WriteString(t.Name)
	default:
		sb.WriteString(strconv.Itoa(t.P0))
		sb.WriteByte(',')
		sb.WriteString(strconv.Itoa(t.P1))
		for _, a := range t.Args {
			sb.WriteByte(',')
			sb.WriteString(strconv.Itoa(a.ID))
		}
	}
	key := sb.String()
	tt.mu.Lock()
	defer tt.mu.Unlock()
	if old, ok := tt.byKey[key]; ok {
		return old
	}
	t.ID = len(tt.all) + 1
	tt.all = append(tt.all, t)
	tt.byKey[key] = t
	return t
}

func mask(w int) uint64 {
	if w >= 64 {
		return ^uint64(0)
	}
	return (uint64(1) << uint(w)) - 1
}

func sext64(v uint64, w int) int64 {
	if w >= 64 {
		return int64(v)
	}
	sh := uint(64 - w)
	return int64(v<<sh) >> sh
}

func (tt *TermTable) Const(s Sort, v uint64) *Term {
	if s.K == KBV {
		v &= mask(s.W)
	}
	if s.K == KBool {
		v &= 1
	}
	k := constKey{s, v}
	if t, ok := tt.consts[k]; ok {
		return t
	}
	t := tt.intern(&Term{Op: OConst, S: s, Val: v})
	tt.consts[k] = t
	return t
}

func (tt *TermTable) Bool(b bool) *Term {
	if b {
		return tt.Const(SortBool, 1)
	}
	return tt.Const(SortBool, 0)
}

func (tt *TermTable) Var(s Sort, name string) *Term {
	return tt.intern(&Term{Op: OVar, S: s, Name: name})
}

func (tt *TermTable) mk(op Op, s Sort, p0, p1 int, args ...*Term) *Term {
	return tt.intern(&Term{Op: op, S: s, P0: p0, P1: p1, Args: args})
}

// ---------------------------------------------------------------- bit-vector

func (tt *TermTable) BinBV(op Op, a, b *Term) *Term {
	if a.S != b.S || a.S.K != KBV {
		panic(fmt.Sprintf("BinBV sort mismatch %v %v op %d", a.S, b.S, op))
	}
	w := a.S.W
	if a.IsConst() && b.IsConst() {
		x, y := a.Val, b.Val
		var r uint64
		ok := true
		switch op {
		case OAdd:
			r = x + y
		case OSub:
			r = x - y
		case OMul:
			r = x * y
		case OAnd:
			r = x & y
		case OOr:
			r = x | y
		case OXor:
			r = x ^ y
		case OShl:
			if y >= uint64(w) {
				r = 0
			} else {
				r = x << y
			}
		case OLShr:
			if y >= uint64(w) {
				r = 0
			} else {
				r = x >> y
			}
		case OAShr:
			sx := sext64(x, w)
			if y >= uint64(w) {
				if sx < 0 {
					r = ^uint64(0)
				} else {
					r = 0
				}
			} else {
				r = uint64(sx >> y)
			}
		case OUDiv:
			if y == 0 {
				r = mask(w)
			} else {
				r = x / y
			}
		case OURem:
			if y == 0 {
				r = x
			} else {
				r = x % y
			}
		case OSDiv:
			sx, sy := sext64(x, w), sext64(y, w)
			if sy == 0 {
				if sx < 0 {
					r = 1
				} else {
					r = mask(w)
				}
			} else if sy == -1 {
				r = uint64(-sx)
			} else {
				r = uint64(sx / sy)
			}
		case OSRem:
			sx, sy := sext64(x, w), sext64(y, w)
			if sy == 0 {
				r = x
			} else if sy == -1 {
				r = 0
			} else {
				r = uint64(sx % sy)
			}
		default:
			ok = false
		}
		if ok {
			return tt.Const(a.S, r)
		}
	}
	// light algebraic simplification
	switch op {
	case OAdd, OOr, OXor:
		if a.IsConst() && a.Val == 0 {
			return b
		}
		if b.IsConst() && b.Val == 0 {
			return a
		}
	case OSub, OShl, OLShr, OAShr:
		if b.IsConst() && b.Val == 0 {
			return a
		}
		if op == OSub {
			if a == b {
				return tt.Const(a.S, 0)
			}
			// (x + k) - x = k
			if a.Op == OAdd && a.Args[0] == b {
				return a.Args[1]
			}
			if a.Op == OAdd && a.Args[1] == b {
				return a.Args[0]
			}
		}
	case OAnd:
		if a.IsConst() && a.Val == 0 {
			return a
		}
		if b.IsConst() && b.Val == 0 {
			return b
		}
		if a.IsConst() && a.Val == mask(w) {
			return b
		}
		if b.IsConst() && b.Val == mask(w) {
			return a
		}
	case OMul:
		if a.IsConst() && a.Val == 1 {
			return b
		}
		if b.IsConst() && b.Val == 1 {
			return a
		}
		if a.IsConst() && a.Val == 0 {
			return a
		}
		if b.IsConst() && b.Val == 0 {
			return b
		}
	}
	// push through ite with constant leaves when the other side is constant
	if b.IsConst() && a.Op == OIte && iteConstLeaves(a, 6) {
		return tt.mapIte(a, func(l *Term) *Term { return tt.BinBV(op, l, b) })
	}
	if a.IsConst() && b.Op == OIte && iteConstLeaves(b, 6) {
		return tt.mapIte(b, func(l *Term) *Term { return tt.BinBV(op, a, l) })
	}
	return tt.mk(op, a.S, 0, 0, a, b)
}

func iteConstLeaves(t *Term, depth int) bool {
	if t.IsConst() {
		return true
	}
	if t.Op != OIte || depth == 0 {
		return false
	}
	return iteConstLeaves(t.Args[1], depth-1) && iteConstLeaves(t.Args[2], depth-1)
}

func iteAllConstLeaves(t *Term) bool {
	for t.Op == OIte {
		if !t.Args[1].IsConst() {
			if !iteConstLeaves(t.Args[1], 4) {
				return false
			}
		}
		t = t.Args[2]
	}
	return t.IsConst()
}

func (tt *TermTable) mapIte(t *Term, f func(*Term) *Term) *Term {
	if t.Op != OIte {
		return f(t)
	}
	return tt.Ite(t.Args[0], tt.mapIte(t.Args[1], f), tt.mapIte(t.Args[2], f))
}

func (tt *TermTable) NotBV(a *Term) *Term {
	if a.IsConst() {
		return tt.Const(a.S, ^a.Val)
	}
	return tt.mk(ONot, a.S, 0, 0, a)
}

func (tt *TermTable) NegBV(a *Term) *Term {
	if a.IsConst() {
		return tt.Const(a.S, -a.Val)
	}
	return tt.mk(ONeg, a.S, 0, 0, a)
}

func (tt *TermTable) Extract(a *Term, hi, lo int) *Term {
	w := hi - lo + 1
	if lo == 0 && w == a.S.W {
		return a
	}
	if a.IsConst() {
		return tt.Const(BV(w), a.Val>>uint(lo))
	}
	if (a.Op == OZExt || a.Op == OSExt) && lo == 0 {
		inner := a.Args[0]
		if w == inner.S.W {
			return inner
		}
		if w < inner.S.W {
			return tt.Extract(inner, hi, lo)
		}
		if a.Op == OZExt {
			return tt.ZExt(inner, w)
		}
		return tt.SExt(inner, w)
	}
	if a.Op == OIte && iteConstLeaves(a, 6) {
		return tt.mapIte(a, func(l *Term) *Term { return tt.Extract(l, hi, lo) })
	}
	return tt.mk(OExtract, BV(w), hi, lo, a)
}

// ZExt extends a to total width w.
func (tt *TermTable) ZExt(a *Term, w int) *Term {
	if w == a.S.W {
		return a
	}
	if w < a.S.W {
		return tt.Extract(a, w-1, 0)
	}
	if a.IsConst() {
		return tt.Const(BV(w), a.Val)
	}
	if a.Op == OZExt {
		return tt.ZExt(a.Args[0], w)
	}
	if a.Op == OIte && iteConstLeaves(a, 6) {
		return tt.mapIte(a, func(l *Term) *Term { return tt.ZExt(l, w) })
	}
	return tt.mk(OZExt, BV(w), w-a.S.W, 0, a)
}

func (tt *TermTable) SExt(a *Term, w int) *Term {
	if w == a.S.W {
		return a
	}
	if w < a.S.W {
		return tt.Extract(a, w-1, 0)
	}
	if a.IsConst() {
		return tt.Const(BV(w), uint64(sext64(a.Val, a.S.W)))
	}
	if a.Op == OIte && iteConstLeaves(a, 6) {
		return tt.mapIte(a, func(l *Term) *Term { return tt.SExt(l, w) })
	}
	return tt.mk(OSExt, BV(w), w-a.S.W, 0, a)
}

// ---------------------------------------------------------------- bool

func (tt *TermTable) Not(a *Term) *Term {
	if a.S.K != KBool {
		panic("Not of non-bool")
	}
	if a.IsConst() {
		return tt.Bool(a.Val == 0)
	}
	if a.Op == OBNot {
		return a.Args[0]
	}
	return tt.mk(OBNot, SortBool, 0, 0, a)
}

func (tt *TermTable) And(a, b *Term) *Term {
	if a.IsConst() {
		if a.Val == 0 {
			return a
		}
		return b
	}
	if b.IsConst() {
		if b.Val == 0 {
			return b
		}
		return a
	}
	if a == b {
		return a
	}
	return tt.mk(OBAnd, SortBool, 0, 0, a, b)
}

func (tt *TermTable) Or(a, b *Term) *Term {
	if a.IsConst() {
		if a.Val == 1 {
			return a
		}
		return b
	}
	if b.IsConst() {
		if b.Val == 1 {
			return b
		}
		return a
	}
	if a == b {
		return a
	}
	return tt.mk(OBOr, SortBool, 0, 0, a, b)
}

func (tt *TermTable) Ite(c, a, b *Term) *Term {
	if a.S != b.S {
		panic(fmt.Sprintf("Ite sort mismatch %v %v", a.S, b.S))
	}
	if c.IsConst() {
		if c.Val == 1 {
			return a
		}
		return b
	}
	if a == b {
		return a
	}
	if a.S.K == KBool {
		if a.IsConst() && b.IsConst() {
			if a.Val == 1 {
				return c
			}
			return tt.Not(c)
		}
		if a.IsConst() {
			if a.Val == 1 {
				return tt.Or(c, b)
			}
			return tt.And(tt.Not(c), b)
		}
		if b.IsConst() {
			if b.Val == 1 {
				return tt.Or(tt.Not(c), a)
			}
			return tt.And(c, a)
		}
	}
	return tt.mk(OIte, a.S, 0, 0, c, a, b)
}

// ---------------------------------------------------------------- predicates

func (tt *TermTable) Eq(a, b *Term) *Term {
	if a.S != b.S {
		panic(fmt.Sprintf("Eq sort mismatch %v %v", a.S, b.S))
	}
	if a == b && a.S.K != KFP {
		return tt.Bool(true)
	}
	if a.S.K == KFP {
		panic("Eq on FP: use FEq")
	}
	if a.IsConst() && b.IsConst() {
		return tt.Bool(a.Val == b.Val)
	}
	if a.S.K == KBool {
		if a.IsConst() {
			if a.Val == 1 {
				return b
			}
			return tt.Not(b)
		}
		if b.IsConst() {
			if b.Val == 1 {
				return a
			}
			return tt.Not(a)
		}
	}
	if a.IsConst() {
		a, b = b, a
	}
	if b.IsConst() {
		// push equality with a constant into ite trees with constant leaves
		if a.Op == OIte && iteAllConstLeaves(a) {
			return tt.eqConstIte(a, b)
		}
		// zext(x) == k
		if a.Op == OZExt {
			inner := a.Args[0]
			if b.Val > mask(inner.S.W) {
				return tt.Bool(false)
			}
			return tt.Eq(inner, tt.Const(inner.S, b.Val))
		}
	}
	if a.ID > b.ID && !b.IsConst() {
		a, b = b, a
	}
	return tt.mk(OEq, SortBool, 0, 0, a, b)
}

func (tt *TermTable) eqConstIte(a, k *Term) *Term {
	if a.IsConst() {
		return tt.Bool(a.Val == k.Val)
	}
	if a.Op != OIte {
		return tt.mk(OEq, SortBool, 0, 0, a, k)
	}
	return tt.Ite(a.Args[0], tt.eqConstIte(a.Args[1], k), tt.eqConstIte(a.Args[2], k))
}

func (tt *TermTable) Cmp(op Op, a, b *Term) *Term {
	if a.S != b.S || a.S.K != KBV {
		panic(fmt.Sprintf("Cmp sort mismatch %v %v", a.S, b.S))
	}
	w := a.S.W
	if a.IsConst() && b.IsConst() {
		var r bool
		switch op {
		case OUlt:
			r = a.Val < b.Val
		case OUle:
			r = a.Val <= b.Val
		case OSlt:
			r = sext64(a.Val, w) < sext64(b.Val, w)
		case OSle:
			r = sext64(a.Val, w) <= sext64(b.Val, w)
		}
		return tt.Bool(r)
	}
	if a == b {
		return tt.Bool(op == OUle || op == OSle)
	}
	if b.IsConst() && a.Op == OIte && iteAllConstLeaves(a) {
		return tt.cmpIte(op, a, b, false)
	}
	if a.IsConst() && b.Op == OIte && iteAllConstLeaves(b) {
		return tt.cmpIte(op, b, a, true)
	}
	// zext(x) <u k  /  zext(x) <s k   (zext is non-negative)
	if b.IsConst() && a.Op == OZExt {
		inner := a.Args[0]
		iw := inner.S.W
		switch op {
		case OUlt, OUle:
			if b.Val > mask(iw) {
				return tt.Bool(true)
			}
			return tt.Cmp(op, inner, tt.Const(inner.S, b.Val))
		case OSlt, OSle:
			sb := sext64(b.Val, w)
			if sb < 0 {
				return tt.Bool(false)
			}
			if uint64(sb) > mask(iw) {
				return tt.Bool(true)
			}
			uop := OUlt
			if op == OSle {
				uop = OUle
			}
			return tt.Cmp(uop, inner, tt.Const(inner.S, uint64(sb)))
		}
	}
	if a.IsConst() && b.Op == OZExt {
		inner := b.Args[0]
		iw := inner.S.W
		switch op {
		case OUlt, OUle:
			if a.Val > mask(iw) {
				return tt.Bool(false)
			}
			return tt.Cmp(op, tt.Const(inner.S, a.Val), inner)
		case OSlt, OSle:
			sa := sext64(a.Val, w)
			if sa < 0 {
				return tt.Bool(true)
			}
			if uint64(sa) > mask(iw) {
				return tt.Bool(false)
			}
			uop := OUlt
			if op == OSle {
				uop = OUle
			}
			return tt.Cmp(uop, tt.Const(inner.S, uint64(sa)), inner)
		}
	}
	return tt.mk(op, SortBool, 0, 0, a, b)
}

func (tt *TermTable) cmpIte(op Op, a, k *Term, swapped bool) *Term {
	if a.Op != OIte {
		if swapped {
			return tt.Cmp(op, k, a)
		}
		return tt.Cmp(op, a, k)
	}
	return tt.Ite(a.Args[0], tt.cmpIte(op, a.Args[1], k, swapped), tt.cmpIte(op, a.Args[2], k, swapped))
}

// Table builds the term table[idx] for a constant table; idx is a BV term.
// Index ranges with equal values are merged.  The caller guarantees
// 0 <= idx < len(table) (bounds are checked separately).
func (tt *TermTable) Table(table []uint64, es Sort, idx *Term) *Term {
	if idx.IsConst() {
		return tt.Const(es, table[idx.Val])
	}
	type rng struct {
		lo, hi int
		v      uint64
	}
	var rs []rng
	for i, v := range table {
		if n := len(rs); n > 0 && rs[n-1].v == v {
			rs[n-1].hi = i
		} else {
			rs = append(rs, rng{i, i, v})
		}
	}
	// most frequent value becomes the default
	cnt := map[uint64]int{}
	for _, r := range rs {
		cnt[r.v] += r.hi - r.lo + 1
	}
	var def uint64
	best := -1
	for _, r := range rs {
		if cnt[r.v] > best {
			best = cnt[r.v]
			def = r.v
		}
	}
	// group ranges by value (in first-appearance order)
	var order []uint64
	grp := map[uint64][]rng{}
	for _, r := range rs {
		if r.v == def {
			continue
		}
		if _, ok := grp[r.v]; !ok {
			order = append(order, r.v)
		}
		grp[r.v] = append(grp[r.v], r)
	}
	res := tt.Const(es, def)
	for i := len(order) - 1; i >= 0; i-- {
		v := order[i]
		cond := tt.Bool(false)
		for _, r := range grp[v] {
			var c *Term
			if r.lo == r.hi {
				c = tt.Eq(idx, tt.Const(idx.S, uint64(r.lo)))
			} else {
				c = tt.And(tt.Cmp(OUle, tt.Const(idx.S, uint64(r.lo)), idx),
					tt.Cmp(OUle, idx, tt.Const(idx.S, uint64(r.hi))))
			}
			cond = tt.Or(cond, c)
		}
		res = tt.Ite(cond, tt.Const(es, v), res)
	}
	return res
}

// ---------------------------------------------------------------- floating point

func fpConstVal(t *Term) float64 {
	if t.S.W == 32 {
		return float64(math.Float32frombits(uint32(t.Val)))
	}
	return math.Float64frombits(t.Val)
}

func (tt *TermTable) FPConst(s Sort, f float64) *Term {
	if s.W == 32 {
		return tt.Const(s, uint64(math.Float32bits(float32(f))))
	}
	return tt.Const(s, math.Float64bits(f))
}

func (tt *TermTable) FBin(op Op, a, b *Term) *Term {
	if a.S != b.S || a.S.K != KFP {
		panic("FBin sort mismatch")
	}
	if a.IsConst() && b.IsConst() {
		x, y := fpConstVal(a), fpConstVal(b)
		if a.S.W == 32 {
			x32, y32 := float32(x), float32(y)
			var r float32
			switch op {
			case OFAdd:
				r = x32 + y32
			case OFSub:
				r = x32 - y32
			case OFMul:
				r = x32 * y32
			case OFDiv:
				r = x32 / y32
			}
			return tt.Const(a.S, uint64(math.Float32bits(r)))
		}
		var r float64
		switch op {
		case OFAdd:
			r = x + y
		case OFSub:
			r = x - y
		case OFMul:
			r = x * y
		case OFDiv:
			r = x / y
		}
		return tt.Const(a.S, math.Float64bits(r))
	}
	return tt.mk(op, a.S, 0, 0, a, b)
}

func (tt *TermTable) FNeg(a *Term) *Term {
	if a.IsConst() {
		if a.S.W == 32 {
			return tt.Const(a.S, a.Val^(1<<31))
		}
		return tt.Const(a.S, a.Val^(1<<63))
	}
	return tt.mk(OFNeg, a.S, 0, 0, a)
}

func (tt *TermTable) FCmp(op Op, a, b *Term) *Term {
	if a.S != b.S || a.S.K != KFP {
		panic("FCmp sort mismatch")
	}
	if a.IsConst() && b.IsConst() {
		x, y := fpConstVal(a), fpConstVal(b)
		var r bool
		switch op {
		case OFEq:
			r = x == y
		case OFLt:
			r = x < y
		case OFLe:
			r = x <= y
		}
		return tt.Bool(r)
	}
	return tt.mk(op, SortBool, 0, 0, a, b)
}

func (tt *TermTable) FIsNaN(a *Term) *Term {
	if a.IsConst() {
		return tt.Bool(math.IsNaN(fpConstVal(a)))
	}
	return tt.mk(OFIsNaN, SortBool, 0, 0, a)
}

func (tt *TermTable) FIsInf(a *Term) *Term {
	if a.IsConst() {
		return tt.Bool(math.IsInf(fpConstVal(a), 0))
	}
	return tt.mk(OFIsInf, SortBool, 0, 0, a)
}

func (tt *TermTable) FToFP(a *Term, s Sort) *Term {
	if a.S == s {
		return a
	}
	if a.IsConst() {
		return tt.FPConst(s, fpConstVal(a))
	}
	return tt.mk(OFToFP, s, 0, 0, a)
}

func (tt *TermTable) IntToFP(a *Term, signed bool, s Sort) *Term {
	if a.IsConst() {
		var f float64
		if signed {
			i := sext64(a.Val, a.S.W)
			if s.W == 32 {
				f = float64(float32(i))
			} else {
				f = float64(i)
			}
		} else {
			if s.W == 32 {
				f = float64(float32(a.Val))
			} else {
				f = float64(a.Val)
			}
		}
		return tt.FPConst(s, f)
	}
	if signed {
		return tt.mk(OSToFP, s, 0, 0, a)
	}
	return tt.mk(OUToFP, s, 0, 0, a)
}

// FToSBVRaw is fp.to_sbv RTZ (unspecified outside range; callers guard).
func (tt *TermTable) FToSBVRaw(a *Term, w int) *Term {
	return tt.mk(OFToSBV, BV(w), 0, 0, a)
}

func (tt *TermTable) FToUBVRaw(a *Term, w int) *Term {
	return tt.mk(OFToUBV, BV(w), 0, 0, a)
}

func (tt *TermTable) FRound(a *Term, mode int) *Term {
	if a.IsConst() {
		f := fpConstVal(a)
		switch mode {
		case 0:
			f = math.Trunc(f)
		case 1:
			f = math.Floor(f)
		case 2:
			f = math.Ceil(f)
		case 3:
			f = math.RoundToEven(f)
		}
		return tt.FPConst(a.S, f)
	}
	return tt.mk(OFRound, a.S, mode, 0, a)
}

func (tt *TermTable) FAbs(a *Term) *Term {
	if a.IsConst() {
		return tt.FPConst(a.S, math.Abs(fpConstVal(a)))
	}
	return tt.mk(OFAbs, a.S, 0, 0, a)
}

func (tt *TermTable) FFromBits(a *Term, s Sort) *Term {
	if a.IsConst() {
		return tt.Const(s, a.Val)
	}
	return tt.mk(OFFromBV, s, 0, 0, a)
}

// ---------------------------------------------------------------- printing

func bvLit(v uint64, w int) string {
	if w%4 == 0 {
		return fmt.Sprintf("#x%0*x", w/4, v&mask(w))
	}
	return fmt.Sprintf("#b%0*b", w, v&mask(w))
}

func fpLit(v uint64, w int) string {
	if w == 32 {
		return fmt.Sprintf("(fp #b%b #b%08b #b%023b)", (v>>31)&1, (v>>23)&0xff, v&0x7fffff)
	}
	return fmt.Sprintf("(fp #b%b #b%011b #b%052b)", (v>>63)&1, (v>>52)&0x7ff, v&((1<<52)-1))
}

var opNames = map[Op]string{
	OAdd: "bvadd", OSub: "bvsub", OMul: "bvmul", OSDiv: "bvsdiv", OUDiv: "bvudiv",
	OSRem: "bvsrem", OURem: "bvurem", OAnd: "bvand", OOr: "bvor", OXor: "bvxor",
	ONot: "bvnot", ONeg: "bvneg", OShl: "bvshl", OLShr: "bvlshr", OAShr: "bvashr",
	OConcat: "concat", OIte: "ite", OEq: "=", OUlt: "bvult", OUle: "bvule",
	OSlt: "bvslt", OSle: "bvsle", OBNot: "not", OBAnd: "and", OBOr: "or",
	OFNeg: "fp.neg", OFEq: "fp.eq", OFLt: "fp.lt", OFLe: "fp.leq",
	OFIsNaN: "fp.isNaN", OFIsInf: "fp.isInfinite",
}

// Ref returns the SMT-LIB reference of a term: literals inline, variables by
// name, everything else by its definition name tN.
func (t *Term) Ref() string {
	switch t.Op {
	case OConst:
		switch t.S.K {
		case KBool:
			if t.Val == 1 {
				return "true"
			}
			return "false"
		case KBV:
			return bvLit(t.Val, t.S.W)
		case KFP:
			return fpLit(t.Val, t.S.W)
		}
	case OVar:
		return t.Name
	}
	return "t" + strconv.Itoa(t.ID)
}

// Body returns the defining expression (children by reference).
func (t *Term) Body() string {
	var sb strings.Builder
	refs := func() {
		for _, a := range t.Args {
			sb.WriteByte(' ')
			sb.WriteString(a.Ref())
		}
		sb.WriteByte(')')
	}
	switch t.Op {
	case OExtract:
		fmt.Fprintf(&sb, "((_ extract %d %d)", t.P0, t.P1)
		refs()
	case OZExt:
		fmt.Fprintf(&sb, "((_ zero_extend %d)", t.P0)
		refs()
	case OSExt:
		fmt.Fprintf(&sb, "((_ sign_extend %d)", t.P0)
		refs()
	case OFAdd, OFSub, OFMul, OFDiv:
		n := map[Op]string{OFAdd: "fp.add", OFSub: "fp.sub", OFMul: "fp.mul", OFDiv: "fp.div"}[t.Op]
		sb.WriteString("(" + n + " RNE")
		refs()
	case OFToFP:
		fmt.Fprintf(&sb, "((_ to_fp %s) RNE", fpDims(t.S))
		refs()
	case OSToFP:
		fmt.Fprintf(&sb, "((_ to_fp %s) RNE", fpDims(t.S))
		refs()
	case OUToFP:
		fmt.Fprintf(&sb, "((_ to_fp_unsigned %s) RNE", fpDims(t.S))
		refs()
	case OFToSBV:
		fmt.Fprintf(&sb, "((_ fp.to_sbv %d) RTZ", t.S.W)
		refs()
	case OFToUBV:
		fmt.Fprintf(&sb, "((_ fp.to_ubv %d) RTZ", t.S.W)
		refs()
	case OFFromBV:
		fmt.Fprintf(&sb, "((_ to_fp %s)", fpDims(t.S))
		refs()
	case OFRound:
		sb.WriteString("(fp.roundToIntegral " + [...]string{"RTZ", "RTN", "RTP", "RNE"}[t.P0])
		refs()
	case OFAbs:
		sb.WriteString("(fp.abs")
		refs()
	default:
		n, ok := opNames[t.Op]
		if !ok {
			panic(fmt.Sprintf("no SMT name for op %d", t.Op))
		}
		sb.WriteString("(" + n)
		refs()
	}
	return sb.String()
}

func fpDims(s Sort) string {
	if s.W == 32 {
		return "8 24"
	}
	return "11 53"
}

// EvalConst evaluates a term under an assignment of variables (by name) to
// bit patterns; used by the engine self test and by model-guided branching.
func (tt *TermTable) Eval(t *Term, env map[string]uint64, memo map[int]uint64) uint64 {
	if v, ok := memo[t.ID]; ok {
		return v
	}
	var r uint64
	switch t.Op {
	case OConst:
		r = t.Val
	case OVar:
		r = env[t.Name]
	default:
		args := make([]*Term, len(t.Args))
		for i, a := range t.Args {
			args[i] = tt.Const(a.S, tt.Eval(a, env, memo))
		}
		c := tt.rebuild(t, args)
		if !c.IsConst() {
			panic(fmt.Sprintf("Eval: op %d did not fold", t.Op))
		}
		r = c.Val
	}
	memo[t.ID] = r
	return r
}

func (tt *TermTable) rebuild(t *Term, a []*Term) *Term {
	switch t.Op {
	case OAdd, OSub, OMul, OSDiv, OUDiv, OSRem, OURem, OAnd, OOr, OXor, OShl, OLShr, OAShr:
		return tt.BinBV(t.Op, a[0], a[1])
	case ONot:
		return tt.NotBV(a[0])
	case ONeg:
		return tt.NegBV(a[0])
	case OExtract:
		return tt.Extract(a[0], t.P0, t.P1)
	case OZExt:
		return tt.ZExt(a[0], t.S.W)
	case OSExt:
		return tt.SExt(a[0], t.S.W)
	case OIte:
		return tt.Ite(a[0], a[1], a[2])
	case OEq:
		return tt.Eq(a[0], a[1])
	case OUlt, OUle, OSlt, OSle:
		return tt.Cmp(t.Op, a[0], a[1])
	case OBNot:
		return tt.Not(a[0])
	case OBAnd:
		return tt.And(a[0], a[1])
	case OBOr:
		return tt.Or(a[0], a[1])
	case OFAdd, OFSub, OFMul, OFDiv:
		return tt.FBin(t.Op, a[0], a[1])
	case OFNeg:
		return tt.FNeg(a[0])
	case OFEq, OFLt, OFLe:
		return tt.FCmp(t.Op, a[0], a[1])
	case OFIsNaN:
		return tt.FIsNaN(a[0])
	case OFIsInf:
		return tt.FIsInf(a[0])
	case OFToFP:
		return tt.FToFP(a[0], t.S)
	case OSToFP:
		return tt.IntToFP(a[0], true, t.S)
	case OUToFP:
		return tt.IntToFP(a[0], false, t.S)
	case OFFromBV:
		return tt.FFromBits(a[0], t.S)
	case OFRound:
		return tt.FRound(a[0], t.P0)
	case OFAbs:
		return tt.FAbs(a[0])
	case OFToSBV:
		f := fpConstVal(a[0])
		return tt.Const(t.S, uint64(int64(f)))
	case OFToUBV:
		f := fpConstVal(a[0])
		return tt.Const(t.S, uint64(f))
	}
	panic(fmt.Sprintf("rebuild: op %d", t.Op))
}

var _ = bits.Len

package sx

// Path exploration: depth-first over the tree of symbolic decisions by
// re-execution.  A path is identified by its decision prefix.

import (
	"fmt"
	"go/ast"
	"go/types"
	"os"
	"runtime/debug"
	"sort"
	"strings"
	"sync"
	"time"

	"golang.org/x/tools/go/packages"
	"golang.org/x/tools/go/ssa"
	"golang.org/x/tools/go/ssa/ssautil"
)

// ---------------------------------------------------------------- program

type Program struct {
	Prog      *ssa.Program
	Pkgs      []*packages.Package
	Props     *ssa.Package // harness package
	SymPkg    *ssa.Package
	sizes     types.Sizes
	allowInit map[*ssa.Package]bool
	volatile  map[*ssa.Package]bool
	extMu     sync.Mutex
	extCache  map[*ssa.Function]externalFn
	LoadSecs  float64
	BuildSecs float64
	GGQLDir   string

	reflectPackage *ssa.Package
	rtypeMethods   methodSet
	errorMethods   methodSet
}

// stdlib packages whose initialisers are executed (pure data tables).
var initAllowList = map[string]bool{
	"io": true, "strconv": true, "unicode": true, "unicode/utf8": true, "unicode/utf16": true,
	"strings": true, "bytes": true, "math": true, "math/bits": true, "sort": true,
	"slices": true, "cmp": true, "iter": true, "internal/itoa": true, "internal/stringslite": true,
	"internal/bytealg": true,
}

const (
	ggqlPath  = "github.com/uhn/ggql/pkg/ggql"
	symPath   = "verif/harness/sym"
	propsPath = "verif/harness/props"
)

// LoadProgram loads the harness module (which imports ggql from /repo through
// a replace directive) and builds SSA for everything.
func LoadProgram(harnessDir string) (*Program, error) {
	t0 := time.Now()
	cfg := &packages.Config{
		Mode: packages.LoadAllSyntax,
		Dir:  harnessDir,
		Env:  append(os.Environ(), "GOFLAGS=-mod=mod", "GOPROXY=off", "GOSUMDB=off", "GOTOOLCHAIN=local", "CGO_ENABLED=0"),
	}
	pkgs, err := packages.Load(cfg, "./props")
	if err != nil {
		return nil, err
	}
	var errs []string
	packages.Visit(pkgs, nil, func(p *packages.Package) {
		for _, e := range p.Errors {
			errs = append(errs, e.Error())
		}
	})
	if len(errs) > 0 {
		return nil, fmt.Errorf("load errors:\n%s", strings.Join(errs, "\n"))
	}
	t1 := time.Now()
	prog, _ := ssautil.AllPackages(pkgs, ssa.InstantiateGenerics|ssa.SanityCheckFunctions*0)
	prog.Build()
	P := &Program{Prog: prog, Pkgs: pkgs, allowInit: map[*ssa.Package]bool{}, volatile: map[*ssa.Package]bool{},
		extCache: map[*ssa.Function]externalFn{}}
	P.LoadSecs = t1.Sub(t0).Seconds()
	P.BuildSecs = time.Since(t1).Seconds()
	P.sizes = types.SizesFor("gc", "amd64")
	for _, p := range prog.AllPackages() {
		path := p.Pkg.Path()
		switch {
		case path == ggqlPath:
			P.allowInit[p] = true
			P.volatile[p] = true
		case strings.HasPrefix(path, "verif/harness"):
			P.allowInit[p] = true
			P.volatile[p] = true
			if path == propsPath {
				P.Props = p
			}
			if path == symPath {
				P.SymPkg = p
			}
		case initAllowList[path]:
			P.allowInit[p] = true
		}
	}
	if P.Props == nil {
		return nil, fmt.Errorf("harness package %s not found", propsPath)
	}
	P.prepareReflect()
	packages.Visit(pkgs, nil, func(p *packages.Package) {
		if p.PkgPath == ggqlPath && len(p.GoFiles) > 0 {
			P.GGQLDir = p.GoFiles[0]
		}
	})
	return P, nil
}

func (P *Program) initAllowed(p *ssa.Package) bool { return P.allowInit[p] }

func (P *Program) external(fn *ssa.Function) externalFn {
	P.extMu.Lock()
	defer P.extMu.Unlock()
	if e, ok := P.extCache[fn]; ok {
		return e
	}
	e := externals[fn.String()]
	if e == nil && fn.Pkg != nil && fn.Pkg.Pkg.Path() == symPath && fn.Signature.Recv() == nil {
		e = symAPI[fn.Name()]
	}
	P.extCache[fn] = e
	return e
}

// ---------------------------------------------------------------- config / results

type KnownFinding struct {
	ID          string `json:"id"`
	Property    string `json:"property"`
	Harness     string `json:"harness"`
	Label       string `json:"label"`       // assertion label or "panic"/"hang" expected inside the region
	Description string `json:"description"` // what fails
}

type Config struct {
	MaxSteps       int64
	MaxDepth       int
	MaxPaths       int
	QueryTimeoutMs int
	Workers        int
	Known          map[string]KnownFinding
	FindingID      string // "" = main pass; otherwise the finding pass for this id
	SampleModels   int    // models to extract from non-violating paths (for native cross-validation)
	Solver         string
	Verbose        bool
	MapOrderSym    bool // symbolic map iteration order (small maps)
	MaxThreads     int
	MaxPreempt     int
	Thorough       bool
	Sem            chan struct{} // global limit on concurrently running paths
	MaxViolations  int           // stop exploring a harness after this many violations (0 = 20)
}

type Decision struct {
	Taken  bool
	Forced bool
	IsVal  bool // value enumeration (Choice / concretize)
	Val    uint64
}

type InputRec struct {
	Name  string   `json:"name"`
	Kind  string   `json:"kind"` // bool,int8..uint64,float32,float64,bytes,string,choice
	N     int      `json:"n,omitempty"`
	Vals  []uint64 `json:"vals"` // concrete model values (bit patterns); one per element
	terms []*Term
}

type Violation struct {
	Harness string     `json:"harness"`
	Kind    string     `json:"kind"` // assert | panic | hang | depth
	Label   string     `json:"label"`
	Msg     string     `json:"msg"`
	Inputs  []InputRec `json:"inputs"`
	KnownID string     `json:"known_id,omitempty"`
	Stack   string     `json:"stack,omitempty"`
}

type PathResult struct {
	Outcome  string // ok | assume | violation | inconclusive | cut
	Reason   string
	Viol     *Violation
	Inputs   []InputRec // with model values when sampled
	Observes []string
	HasModel bool
	Steps    int64
	Depth    int
}

type HarnessResult struct {
	Name          string
	Paths         int
	OK            int
	AssumeEnded   int
	Cut           int
	Violations    []*Violation
	Inconclusive  []string
	AssertReached map[string]int
	CoverReached  map[string]int
	Samples       []*PathResult
	Instrs        map[string]int64
	Intrinsics    map[string]int
	Stats         SolverStats
	MaxSteps      int64
	MaxDepth      int
	Decisions     int
	Forks         int
	WallSecs      float64
	PathLimitHit  bool
	OverApprox    int
	StoppedEarly  bool
}

// ---------------------------------------------------------------- worker / run

type Worker struct {
	P         *Program
	tt        *TermTable
	solver    *Solver
	globals   map[*ssa.Global]*value
	inited    bool
	cfg       *Config
	wantModel bool
}

type Run struct {
	cfg          *Config
	w            *Worker
	i            *interpreter
	prefix       []Decision
	pos          int
	taken        []Decision // decisions of this run (prefix + new)
	newPref      [][]Decision
	inputs       []InputRec
	observes     []obsRec
	asserts      map[string]int
	covers       map[string]int
	instrs       map[*ssa.Function]int64
	intrins      map[string]int
	pcLen        int
	forks        int
	seq          int
	knownHit     string
	cutBy        string
	pendingViol  *Violation
	wantModel    bool
	overApprox   int
	floatTextCut int
	mapOrderSym  bool
	decided      map[int]bool
	naux         int
	stamp        int
	maxPreempt   int
}

func (r *Run) freshAux(name string, s Sort) *Term {
	r.naux++
	return r.w.tt.Var(s, fmt.Sprintf("aux%d_%s_%s", r.naux, name, sortTag(s)))
}

type obsRec struct {
	label string
	v     value
}

func (r *Run) touch(fn *ssa.Function) {}

func NewWorker(P *Program, cfg *Config) (*Worker, error) {
	s, err := NewSolver(cfg.Solver, cfg.QueryTimeoutMs)
	if err != nil {
		return nil, err
	}
	return &Worker{P: P, tt: NewTermTable(), solver: s, cfg: cfg}, nil
}

func (w *Worker) Close() { w.solver.Close() }

func (w *Worker) newInterp(r *Run) *interpreter {
	P := w.P
	i := &interpreter{P: P, prog: P.Prog, sizes: P.sizes, tt: w.tt, run: r}
	runtimePkg := P.Prog.ImportedPackage("runtime")
	if runtimePkg == nil {
		panic("ssa.Program doesn't include runtime package")
	}
	i.runtimeErrorString = runtimePkg.Type("errorString").Object().Type()
	initReflect(i)
	if w.globals == nil {
		w.globals = make(map[*ssa.Global]*value)
		for _, pkg := range P.Prog.AllPackages() {
			for _, m := range pkg.Members {
				if g, ok := m.(*ssa.Global); ok {
					cell := zero(mustDeref(g.Type()))
					w.globals[g] = &cell
				}
			}
		}
	} else {
		// reset the globals of the packages that are re-initialised per run
		for pkg := range P.volatile {
			for _, m := range pkg.Members {
				if g, ok := m.(*ssa.Global); ok {
					*w.globals[g] = zero(mustDeref(g.Type()))
				}
			}
		}
	}
	i.globals = w.globals
	return i
}

// runPath executes harness function fn along the given decision prefix.
func (w *Worker) runPath(fn *ssa.Function, prefix []Decision) (res *PathResult, run *Run) {
	r := &Run{cfg: w.cfg, w: w, prefix: prefix, wantModel: w.wantModel, mapOrderSym: w.cfg.MapOrderSym, asserts: map[string]int{}, covers: map[string]int{},
		instrs: map[*ssa.Function]int64{}, intrins: map[string]int{}, decided: map[int]bool{}}
	run = r
	res = &PathResult{}
	i := w.newInterp(r)
	r.i = i
	w.solver.PopAll()
	w.solver.Push()
	defer func() {
		res.Steps = i.steps
		res.Depth = i.maxDepthSeen
		if p := recover(); p != nil {
			switch p := p.(type) {
			case pathEnd:
				res.Outcome = p.why
				if p.why == "violation" {
					// filled by the assertion site
				}
			case unsupported:
				res.Outcome = "inconclusive"
				res.Reason = "unsupported: " + string(p) + "\n" + i.targetStack()
				if w.cfg.Verbose {
					res.Reason += "\n" + string(debug.Stack())
				}
			case budgetExceeded:
				r.violation(res, "hang", "budget", p.what)
			case *threadAbort:
				res.Outcome = "inconclusive"
				res.Reason = "thread abort escaped"
			default:
				msg := fprintPanic(p)
				stack := ""
				if _, isTarget := p.(targetPanic); !isTarget && w.cfg.Verbose {
					if _, isRT := p.(targetRuntimeError); !isRT {
						stack = string(debug.Stack())
					}
				}
				r.violation(res, "panic", "panic", msg)
				if res.Viol != nil {
					res.Viol.Stack = i.targetStack() + stack
				}
			}
		} else if res.Outcome == "" {
			res.Outcome = "ok"
		}
		if res.Outcome == "violation" && res.Viol == nil {
			res.Viol = r.pendingViol
		}
		// model extraction
		if res.Outcome == "violation" || (res.Outcome == "ok" && r.wantModel) {
			if r.model() {
				res.HasModel = true
				res.Inputs = r.inputs
				if res.Viol != nil {
					res.Viol.Inputs = r.inputs
				}
				for _, o := range r.observes {
					res.Observes = append(res.Observes, o.label+"="+r.render(o.v))
				}
			} else if res.Outcome == "violation" {
				res.Outcome = "inconclusive"
				res.Reason = "no model for violating path: " + res.Viol.Msg
			}
		}
	}()
	// (re)initialise the volatile packages and run the harness
	call(i, nil, 0, w.P.Props.Func("init"), nil)
	call(i, nil, 0, fn, nil)
	if i.sched != nil {
		i.sched.finish(i)
	}
	return
}

func (r *Run) violation(res *PathResult, kind, label, msg string) {
	res.Outcome = "violation"
	res.Viol = &Violation{Kind: kind, Label: label, Msg: msg, KnownID: r.knownHit}
}

// model asks the solver for values of all inputs on the current path.
func (r *Run) model() bool {
	s := r.w.solver
	if v := s.Check(); v != Sat {
		return false
	}
	var terms []*Term
	for _, in := range r.inputs {
		terms = append(terms, in.terms...)
	}
	vals := s.Values(terms)
	for k := range r.inputs {
		in := &r.inputs[k]
		if in.Kind == "choice" || in.Kind == "sched" {
			continue
		}
		in.Vals = in.Vals[:0]
		for _, t := range in.terms {
			in.Vals = append(in.Vals, vals[t.Ref()])
		}
	}
	return true
}

func (r *Run) env() map[string]uint64 {
	env := map[string]uint64{}
	for _, in := range r.inputs {
		for k, t := range in.terms {
			if k < len(in.Vals) {
				env[t.Name] = in.Vals[k]
			}
		}
	}
	return env
}

// ---------------------------------------------------------------- decisions

// decide returns the direction taken at a symbolic condition.
func (i *interpreter) decide(cond *Term, what string) bool {
	if cond.IsConst() {
		return cond.Val == 1
	}
	r := i.run
	s := r.w.solver
	tt := i.tt
	// a condition already decided on this path is implied by the path condition
	if v, ok := r.decided[cond.ID]; ok {
		return v
	}
	if cond.Op == OBNot {
		if v, ok := r.decided[cond.Args[0].ID]; ok {
			return !v
		}
	}
	defer func() {
		if n := len(r.taken); n > 0 {
			r.decided[cond.ID] = r.taken[n-1].Taken
		}
	}()
	if r.pos < len(r.prefix) {
		d := r.prefix[r.pos]
		r.pos++
		r.taken = append(r.taken, d)
		if !d.Forced {
			if d.Taken {
				s.Assert(cond)
			} else {
				s.Assert(tt.Not(cond))
			}
		}
		return d.Taken
	}
	r.pos++
	s.What = what + " @ " + i.whereAmI()
	vt := s.CheckWith(cond)
	if vt == Unknown {
		panic(unsupported("solver unknown at " + what + ": " + LastSolverError))
	}
	if vt == Unsat {
		r.taken = append(r.taken, Decision{Taken: false, Forced: true})
		return false
	}
	ncond := tt.Not(cond)
	vf := s.CheckWith(ncond)
	if vf == Unknown {
		panic(unsupported("solver unknown at " + what + ": " + LastSolverError))
	}
	if vf == Unsat {
		r.taken = append(r.taken, Decision{Taken: true, Forced: true})
		return true
	}
	// both feasible: fork
	alt := append(append([]Decision(nil), r.taken...), Decision{Taken: false})
	r.newPref = append(r.newPref, alt)
	r.forks++
	if r.cfg.Verbose {
		r.intrins["fork@"+what+" "+i.whereAmI()]++
	}
	r.taken = append(r.taken, Decision{Taken: true})
	s.Assert(cond)
	return true
}

// choice forks k ways without consulting the solver.
func (i *interpreter) choice(k int) int {
	r := i.run
	if k <= 1 {
		return 0
	}
	if r.pos < len(r.prefix) {
		d := r.prefix[r.pos]
		r.pos++
		r.taken = append(r.taken, d)
		return int(d.Val)
	}
	r.pos++
	for v := k - 1; v >= 1; v-- {
		alt := append(append([]Decision(nil), r.taken...), Decision{IsVal: true, Taken: true, Val: uint64(v)})
		r.newPref = append(r.newPref, alt)
		r.forks++
	}
	r.taken = append(r.taken, Decision{IsVal: true, Taken: true, Val: 0})
	return 0
}

// concretizeTerm enumerates the feasible values of a bit-vector term.
func (i *interpreter) concretizeTerm(t *Term, what string) uint64 {
	if t.IsConst() {
		return t.Val
	}
	r := i.run
	s := r.w.solver
	tt := i.tt
	n := 0
	for {
		n++
		if n > 4096 {
			panic(unsupported("concretize: more than 4096 values at " + what))
		}
		if r.pos < len(r.prefix) {
			d := r.prefix[r.pos]
			r.pos++
			r.taken = append(r.taken, d)
			c := tt.Eq(t, tt.Const(t.S, d.Val))
			if d.Taken {
				s.Assert(c)
				return d.Val
			}
			s.Assert(tt.Not(c))
			continue
		}
		r.pos++
		r.intrins["concretize@"+i.whereAmI()]++
		v, m := s.CheckWithModel(tt.Bool(true), []*Term{t})
		if v != Sat {
			panic(unsupported("concretize: solver " + v.String() + " at " + what))
		}
		cand := m[t.Ref()]
		c := tt.Eq(t, tt.Const(t.S, cand))
		nv := s.CheckWith(tt.Not(c))
		if nv == Unknown {
			panic(unsupported("concretize: solver unknown at " + what))
		}
		if nv == Sat {
			alt := append(append([]Decision(nil), r.taken...), Decision{IsVal: true, Taken: false, Val: cand})
			r.newPref = append(r.newPref, alt)
			r.forks++
		}
		r.taken = append(r.taken, Decision{IsVal: true, Taken: true, Val: cand, Forced: nv == Unsat})
		s.Assert(c)
		return cand
	}
}

// assume adds c to the path condition; ends the path if it is infeasible.
func (i *interpreter) assume(c *Term) {
	if c.IsConst() {
		if c.Val == 0 {
			panic(pathEnd{"assume"})
		}
		return
	}
	r := i.run
	s := r.w.solver
	if r.pos >= len(r.prefix) {
		v := s.CheckWith(c)
		if v == Unsat {
			panic(pathEnd{"assume"})
		}
		if v == Unknown {
			panic(unsupported("solver unknown at assume"))
		}
	}
	s.Assert(c)
}

// mapOrder returns the visiting order for a map of n entries.
func (i *interpreter) mapOrder(n int) []int {
	order := make([]int, n)
	for k := range order {
		order[k] = k
	}
	if i.run.mapOrderSym && n >= 2 && n <= 3 {
		// choose a permutation (E-dimension)
		nperm := 2
		if n == 3 {
			nperm = 6
		}
		p := i.choice(nperm)
		perms := [][]int{{0, 1, 2}, {1, 0, 2}, {0, 2, 1}, {2, 0, 1}, {1, 2, 0}, {2, 1, 0}}
		if n == 2 {
			perms = [][]int{{0, 1}, {1, 0}}
		}
		copy(order, perms[p])
	}
	return order
}

// ---------------------------------------------------------------- exploration

// Explore runs harness fn over all feasible paths within the configured bounds.
func Explore(P *Program, fnName string, cfg *Config) (*HarnessResult, error) {
	fn := P.Props.Func(fnName)
	if fn == nil {
		return nil, fmt.Errorf("harness %s not found in %s", fnName, propsPath)
	}
	t0 := time.Now()
	hr := &HarnessResult{Name: fnName, AssertReached: map[string]int{}, CoverReached: map[string]int{},
		Instrs: map[string]int64{}, Intrinsics: map[string]int{}}
	var mu sync.Mutex
	cond := sync.NewCond(&mu)
	stack := [][]Decision{nil}
	active := 0
	nw := cfg.Workers
	if nw < 1 {
		nw = 1
	}
	var wg sync.WaitGroup
	var firstErr error
	sampled := 0
	for k := 0; k < nw; k++ {
		wg.Add(1)
		go func(widx int) {
			defer wg.Done()
			var w *Worker
			defer func() {
				if w != nil {
					mu.Lock()
					addStats(&hr.Stats, &w.solver.Stats)
					mu.Unlock()
					w.Close()
				}
			}()
			for {
				mu.Lock()
				for len(stack) == 0 && active > 0 {
					cond.Wait()
				}
				maxV := cfg.MaxViolations
				if maxV == 0 {
					maxV = 20
				}
				if len(hr.Violations) >= maxV {
					hr.StoppedEarly = true
				}
				if len(stack) == 0 || hr.PathLimitHit || firstErr != nil || hr.StoppedEarly {
					mu.Unlock()
					cond.Broadcast()
					return
				}
				prefix := stack[len(stack)-1]
				stack = stack[:len(stack)-1]
				active++
				if hr.Paths >= cfg.MaxPaths {
					hr.PathLimitHit = true
					active--
					mu.Unlock()
					cond.Broadcast()
					return
				}
				hr.Paths++
				wantModel := sampled < cfg.SampleModels
				if wantModel {
					sampled++
				}
				mu.Unlock()
				if w == nil {
					var err error
					w, err = NewWorker(P, cfg)
					if err != nil {
						mu.Lock()
						firstErr = err
						active--
						mu.Unlock()
						cond.Broadcast()
						return
					}
				}
				if cfg.Sem != nil {
					cfg.Sem <- struct{}{}
				}
				res, run := w.runPathSafe(fn, prefix, wantModel)
				if cfg.Sem != nil {
					<-cfg.Sem
				}
				mu.Lock()
				active--
				stack = append(stack, run.newPref...)
				hr.Decisions += len(run.taken)
				hr.Forks += run.forks
				hr.OverApprox += run.overApprox
				for l, n := range run.asserts {
					hr.AssertReached[l] += n
				}
				for l, n := range run.covers {
					hr.CoverReached[l] += n
				}
				for f, n := range run.instrs {
					hr.Instrs[f.String()] += n
				}
				for f, n := range run.intrins {
					hr.Intrinsics[f] += n
				}
				if res.Steps > hr.MaxSteps {
					hr.MaxSteps = res.Steps
				}
				if res.Depth > hr.MaxDepth {
					hr.MaxDepth = res.Depth
				}
				switch res.Outcome {
				case "ok":
					hr.OK++
					if res.HasModel {
						hr.Samples = append(hr.Samples, res)
					}
				case "assume":
					hr.AssumeEnded++
				case "cut":
					hr.Cut++
				case "violation":
					res.Viol.Harness = fnName
					hr.Violations = append(hr.Violations, res.Viol)
				default:
					hr.Inconclusive = append(hr.Inconclusive, res.Reason)
				}
				mu.Unlock()
				cond.Broadcast()
			}
		}(k)
	}
	wg.Wait()
	hr.WallSecs = time.Since(t0).Seconds()
	if firstErr != nil {
		return hr, firstErr
	}
	return hr, nil
}

func (w *Worker) runPathSafe(fn *ssa.Function, prefix []Decision, wantModel bool) (res *PathResult, run *Run) {
	defer func() {
		if p := recover(); p != nil {
			if res == nil {
				res = &PathResult{}
			}
			res.Outcome = "inconclusive"
			res.Reason = fmt.Sprintf("engine crash: %v\n%s", p, debug.Stack())
			if run == nil {
				run = &Run{}
			}
		}
	}()
	w.wantModel = wantModel
	return w.runPath(fn, prefix)
}

func addStats(a, b *SolverStats) {
	a.Queries += b.Queries
	a.Sat += b.Sat
	a.Unsat += b.Unsat
	a.Unknown += b.Unknown
	a.Errors += b.Errors
	a.Seconds += b.Seconds
	a.Asserted += b.Asserted
}

// HarnessNames lists the harness functions of a property (prefix "C05_").
func (P *Program) HarnessNames(prop string) []string {
	var names []string
	for name, m := range P.Props.Members {
		if f, ok := m.(*ssa.Function); ok && strings.HasPrefix(name, prop+"_") && f.Signature.Params().Len() == 0 {
			names = append(names, name)
		}
	}
	sort.Strings(names)
	return names
}

// HarnessDoc returns the doc comment of a harness function: it states the
// harness's bounds in words and goes into the evidence verbatim.
func (P *Program) HarnessDoc(fnName string) string {
	for _, pkg := range P.Pkgs {
		if pkg.PkgPath != propsPath {
			continue
		}
		for _, f := range pkg.Syntax {
			for _, d := range f.Decls {
				if fd, ok := d.(*ast.FuncDecl); ok && fd.Recv == nil && fd.Name.Name == fnName && fd.Doc != nil {
					return strings.Join(strings.Fields(fd.Doc.Text()), " ")
				}
			}
		}
	}
	return ""
}

// AssertLabels statically collects the constant labels of sym.Assert and
// sym.Cover calls reachable from fn inside the harness package.
func (P *Program) AssertLabels(fnName string) (asserts, covers []string) {
	fn := P.Props.Func(fnName)
	seen := map[*ssa.Function]bool{}
	am, cm := map[string]bool{}, map[string]bool{}
	var visit func(f *ssa.Function)
	visit = func(f *ssa.Function) {
		if f == nil || seen[f] || f.Pkg != P.Props {
			return
		}
		seen[f] = true
		for _, af := range f.AnonFuncs {
			visit(af)
		}
		for _, b := range f.Blocks {
			for _, ins := range b.Instrs {
				c, ok := ins.(ssa.CallInstruction)
				if !ok {
					continue
				}
				callee := c.Common().StaticCallee()
				if callee == nil {
					continue
				}
				if callee.Pkg == P.SymPkg {
					args := c.Common().Args
					switch callee.Name() {
					case "Assert":
						if k, ok := args[1].(*ssa.Const); ok {
							am[constValue(k).(string)] = true
						}
					case "Cover":
						if k, ok := args[0].(*ssa.Const); ok {
							cm[constValue(k).(string)] = true
						}
					}
				} else {
					visit(callee)
				}
			}
		}
	}
	visit(fn)
	for l := range am {
		asserts = append(asserts, l)
	}
	for l := range cm {
		covers = append(covers, l)
	}
	sort.Strings(asserts)
	sort.Strings(covers)
	return
}

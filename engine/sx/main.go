package sx

import (
	"encoding/json"
	"flag"
	"fmt"
	"os"
	"runtime/pprof"
)

// Main is the command line entry point (see DESIGN.md §4.1).
func Main(args []string) int {
	if len(args) == 0 {
		fmt.Fprintln(os.Stderr, "usage: gosym explore|check|replay ...")
		return 2
	}
	switch args[0] {
	case "explore":
		fs := flag.NewFlagSet("explore", flag.ExitOnError)
		harnessDir := fs.String("harness", "/verif/harness", "harness module directory")
		fn := fs.String("fn", "", "harness function")
		workers := fs.Int("workers", 1, "workers")
		maxPaths := fs.Int("max-paths", 100000, "path limit")
		verbose := fs.Bool("v", false, "verbose")
		cpuprof := fs.String("cpuprofile", "", "write cpu profile")
		noKnown := fs.Bool("noknown", false, "ignore known_findings.json")
		finding := fs.String("finding", "", "run the finding pass for this known-finding id")
		thorough := fs.Bool("thorough", false, "sym.Thorough() is true")
		fs.Parse(args[1:])
		if *cpuprof != "" {
			f, _ := os.Create(*cpuprof)
			pprof.StartCPUProfile(f)
			defer pprof.StopCPUProfile()
		}
		if *verbose {
			SlowQueryLog = func(secs float64, what string) { fmt.Fprintf(os.Stderr, "slow query %.1fs: %s\n", secs, what) }
		}
		P, err := LoadProgram(*harnessDir)
		if err != nil {
			fmt.Fprintln(os.Stderr, err)
			return 3
		}
		fmt.Fprintf(os.Stderr, "loaded in %.1fs, ssa in %.1fs\n", P.LoadSecs, P.BuildSecs)
		cfg := &Config{MaxSteps: 20_000_000, MaxDepth: 4000, MaxPaths: *maxPaths, QueryTimeoutMs: 20000,
			Workers: *workers, Solver: "z3", Verbose: *verbose, SampleModels: 3, MaxThreads: 4, MaxPreempt: 1 << 30}
		cfg.Thorough = *thorough
		if !*noKnown {
			cfg.Known, _, _ = loadKnown("/verif/known_findings.json")
			cfg.FindingID = *finding
		}
		hr, err := Explore(P, *fn, cfg)
		if err != nil {
			fmt.Fprintln(os.Stderr, err)
			return 3
		}
		b, _ := json.MarshalIndent(hr, "", " ")
		fmt.Println(string(b))
		return 0
	case "check":
		fs := flag.NewFlagSet("check", flag.ExitOnError)
		o := checkOpts{}
		fs.StringVar(&o.HarnessDir, "harness", "/verif/harness", "harness module directory")
		fs.StringVar(&o.VerifDir, "verif", "/verif", "verif directory (evidence, replays, known findings)")
		fs.StringVar(&o.Property, "property", "", "property id")
		fs.StringVar(&o.Tier, "tier", "quick", "quick|thorough")
		fs.StringVar(&o.Only, "only", "", "only harnesses whose name contains this")
		fs.IntVar(&o.Workers, "workers", 16, "workers")
		fs.BoolVar(&o.Verbose, "v", false, "verbose")
		fs.Parse(args[1:])
		if t := os.Getenv("VERIF_TIER"); t == "quick" || t == "thorough" {
			o.Tier = t
		}
		if sd := os.Getenv("VERIF_SEED"); sd != "" {
			fmt.Sscan(sd, &o.Seed)
		}
		return runCheck(o)
	case "replay":
		if len(args) < 2 {
			fmt.Fprintln(os.Stderr, "usage: gosym replay <file>")
			return 2
		}
		return runReplay("/verif/harness", args[1])
	}
	return 2
}

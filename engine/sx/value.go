// Derived from golang.org/x/tools/go/ssa/interp (BSD license, The Go Authors).

package sx

// Values
//
// All interpreter values are "boxed" in the empty interface, value.
// The range of possible dynamic types within value are:
//
// - bool
// - numbers (all built-in int/float/complex types are distinguished)
// - string
// - *SV   --- a symbolic scalar (bool, integer or float) : Go kind + SMT term
// - *SStr --- a string of concrete length with at least one symbolic byte
// - *omap --- maps (insertion ordered, deterministic iteration)
// - chan value
// - []value --- slices
// - iface --- interfaces.
// - structure --- structs.  Fields are ordered and accessed by numeric indices.
// - array --- arrays.
// - *value --- pointers.  Careful: *value is a distinct type from *array etc.
// - *ssa.Function \
//   *ssa.Builtin   } --- functions.  A nil 'func' is always of type *ssa.Function.
//   *closure      /
// - tuple --- as returned by Return, Next, "value,ok" modes, etc.
// - iter --- iterators from 'range' over map or string.
// - bad --- a poison pill for locals that have gone out of scope.
// - rtype -- the interpreter's concrete implementation of reflect.Type
// - **deferred -- the address of a frame's defer stack for a Defer._Stack.

import (
	"bytes"
	"fmt"
	"go/types"
	"unsafe"

	"golang.org/x/tools/go/ssa"
)

type value interface{}

type tuple []value

type array []value

type iface struct {
	t types.Type // never an "untyped" type
	v value
}

type structure []value

// SV is a symbolic scalar.
type SV struct {
	K types.BasicKind
	T *Term
}

// SStr is a string with symbolic bytes (each element uint8 or *SV of kind
// Uint8).  Always used through a pointer; immutable once built.
type SStr struct {
	B []value
}

// For map, array, *array, slice, string or channel.
type iter interface {
	// next returns a Tuple (key, value, ok).
	next() tuple
}

type closure struct {
	Fn  *ssa.Function
	Env []value
}

type bad struct{}

type rtype struct {
	t types.Type
}

// nil-tolerant variant of types.Identical.
func sameType(x, y types.Type) bool {
	if x == nil {
		return y == nil
	}
	return y != nil && types.Identical(x, y)
}

// equals returns true iff x and y are equal according to Go's
// linguistic equivalence relation for type t.  Symbolic operands are decided
// through the interpreter (forking).
func equals(i *interpreter, t types.Type, x, y value) bool {
	return i.truth(symEquals(i, t, x, y))
}

// symEquals returns a bool or a *SV of kind Bool.
func symEquals(i *interpreter, t types.Type, x, y value) value {
	switch x := x.(type) {
	case bool:
		if ys, ok := y.(*SV); ok {
			return i.mkBool(i.tt.Eq(i.tt.Bool(x), ys.T))
		}
		return x == y.(bool)
	case *SV:
		return i.scalarEq(x, y)
	case *SStr:
		return i.strEq(x, y)
	case string:
		if ys, ok := y.(*SStr); ok {
			return i.strEq(x, ys)
		}
		return x == y.(string)
	case int, int8, int16, int32, int64, uint, uint8, uint16, uint32, uint64, uintptr, float32, float64:
		if _, ok := y.(*SV); ok {
			return i.scalarEq(x, y)
		}
		return x == y
	case complex64:
		return x == y.(complex64)
	case complex128:
		return x == y.(complex128)
	case *value:
		return x == y.(*value)
	case chan value:
		return x == y.(chan value)
	case unsafe.Pointer:
		return x == y.(unsafe.Pointer)
	case structure:
		yv := y.(structure)
		tStruct := t.Underlying().(*types.Struct)
		var acc value = true
		for k, n := 0, tStruct.NumFields(); k < n; k++ {
			if f := tStruct.Field(k); f.Name() != "_" {
				acc = i.andValue(acc, symEquals(i, f.Type(), x[k], yv[k]))
				if acc == false {
					return false
				}
			}
		}
		return acc
	case array:
		yv := y.(array)
		tElt := t.Underlying().(*types.Array).Elem()
		var acc value = true
		for k, xi := range x {
			acc = i.andValue(acc, symEquals(i, tElt, xi, yv[k]))
			if acc == false {
				return false
			}
		}
		return acc
	case iface:
		yv := y.(iface)
		if !sameType(x.t, yv.t) {
			return false
		}
		if x.t == nil {
			return true
		}
		if xr, ok := x.v.(rtype); ok {
			yr, ok := yv.v.(rtype)
			return ok && types.Identical(xr.t, yr.t)
		}
		if !types.Comparable(x.t) {
			panic(targetRuntimeError("comparing uncomparable type " + x.t.String()))
		}
		return symEquals(i, x.t, x.v, yv.v)
	case rtype:
		return types.Identical(x.t, y.(rtype).t)
	}

	// Since map, func and slice don't support comparison, this
	// case is only reachable if one of x or y is literally nil
	// (handled in eqnil) or via interface{} values.
	panic(targetRuntimeError(fmt.Sprintf("comparing uncomparable type %s", t)))
}

// load returns the value of type T in *addr.
func load(T types.Type, addr *value) value {
	switch T := T.Underlying().(type) {
	case *types.Struct:
		v := (*addr).(structure)
		a := make(structure, len(v))
		for i := range a {
			a[i] = load(T.Field(i).Type(), &v[i])
		}
		return a
	case *types.Array:
		v := (*addr).(array)
		a := make(array, len(v))
		for i := range a {
			a[i] = load(T.Elem(), &v[i])
		}
		return a
	default:
		return *addr
	}
}

// store stores value v of type T into *addr.
func store(T types.Type, addr *value, v value) {
	switch T := T.Underlying().(type) {
	case *types.Struct:
		lhs := (*addr).(structure)
		rhs := v.(structure)
		for i := range lhs {
			store(T.Field(i).Type(), &lhs[i], rhs[i])
		}
	case *types.Array:
		lhs := (*addr).(array)
		rhs := v.(array)
		for i := range lhs {
			store(T.Elem(), &lhs[i], rhs[i])
		}
	default:
		*addr = v
	}
}

// Prints in the style of built-in println.
func writeValue(buf *bytes.Buffer, v value) {
	switch v := v.(type) {
	case nil, bool, int, int8, int16, int32, int64, uint, uint8, uint16, uint32, uint64, uintptr, float32, float64, complex64, complex128, string:
		fmt.Fprintf(buf, "%v", v)

	case *omap:
		buf.WriteString("map[")
		if v != nil {
			for i, k := range v.keys {
				if i > 0 {
					buf.WriteString(" ")
				}
				writeValue(buf, k)
				buf.WriteString(":")
				writeValue(buf, v.vals[i])
			}
		}
		buf.WriteString("]")

	case *SV:
		fmt.Fprintf(buf, "<sym %s>", v.T.Ref())

	case *SStr:
		buf.WriteString("<symstr ")
		for _, b := range v.B {
			if c, ok := b.(uint8); ok {
				buf.WriteByte(c)
			} else {
				buf.WriteString("?")
			}
		}
		buf.WriteString(">")

	case chan value:
		fmt.Fprintf(buf, "%v", v) // (an address)

	case *value:
		if v == nil {
			buf.WriteString("<nil>")
		} else {
			fmt.Fprintf(buf, "%p", v)
		}

	case iface:
		fmt.Fprintf(buf, "(%s, ", v.t)
		writeValue(buf, v.v)
		buf.WriteString(")")

	case structure:
		buf.WriteString("{")
		for i, e := range v {
			if i > 0 {
				buf.WriteString(" ")
			}
			writeValue(buf, e)
		}
		buf.WriteString("}")

	case array:
		buf.WriteString("[")
		for i, e := range v {
			if i > 0 {
				buf.WriteString(" ")
			}
			writeValue(buf, e)
		}
		buf.WriteString("]")

	case []value:
		buf.WriteString("[")
		for i, e := range v {
			if i > 0 {
				buf.WriteString(" ")
			}
			writeValue(buf, e)
		}
		buf.WriteString("]")

	case *ssa.Function, *ssa.Builtin, *closure:
		fmt.Fprintf(buf, "%p", v) // (an address)

	case rtype:
		buf.WriteString(v.t.String())

	case tuple:
		buf.WriteString("(")
		for i, e := range v {
			if i > 0 {
				buf.WriteString(", ")
			}
			writeValue(buf, e)
		}
		buf.WriteString(")")

	default:
		fmt.Fprintf(buf, "<%T>", v)
	}
}

// Implements printing of Go values in the style of built-in println.
func toString(v value) string {
	var b bytes.Buffer
	writeValue(&b, v)
	return b.String()
}

// ------------------------------------------------------------------------
// Maps: insertion ordered, with a native index for concrete comparable keys.

type omap struct {
	kt      types.Type
	keys    []value
	vals    []value
	idx     map[value]int // only when native
	native  bool          // keys are Go-comparable concrete basics/pointers
	symKeys bool          // at least one symbolic key stored
	ver     int           // bumped when the key set changes
}

func nativeKeyType(t types.Type) bool {
	switch t := t.(type) {
	case *types.Basic, *types.Chan, *types.Pointer:
		return true
	case *types.Named, *types.Alias:
		return nativeKeyType(t.Underlying())
	}
	return false
}

func makeMap(kt types.Type, reserve int64) value {
	m := &omap{kt: kt, native: nativeKeyType(kt)}
	if m.native {
		m.idx = make(map[value]int)
	}
	return m
}

func isSymKey(k value) bool {
	switch k.(type) {
	case *SV, *SStr:
		return true
	}
	return false
}

// find returns the index of key k or -1.
func (m *omap) find(i *interpreter, k value) int {
	if m == nil {
		return -1
	}
	if m.native && !m.symKeys && !isSymKey(k) {
		if j, ok := m.idx[k]; ok {
			return j
		}
		return -1
	}
	for j, k2 := range m.keys {
		if equals(i, m.kt, k, k2) {
			return j
		}
	}
	return -1
}

func (m *omap) lookup(i *interpreter, k value) (value, bool) {
	if j := m.find(i, k); j >= 0 {
		return m.vals[j], true
	}
	return nil, false
}

func (m *omap) insert(i *interpreter, k, v value) {
	if m == nil {
		panic(targetRuntimeError("assignment to entry in nil map"))
	}
	if j := m.find(i, k); j >= 0 {
		m.vals[j] = v
		return
	}
	if isSymKey(k) {
		m.symKeys = true
	} else if m.native {
		m.idx[k] = len(m.keys)
	}
	m.keys = append(m.keys, k)
	m.vals = append(m.vals, v)
	m.ver++
}

func (m *omap) delete(i *interpreter, k value) {
	j := m.find(i, k)
	if j < 0 {
		return
	}
	m.keys = append(m.keys[:j:j], m.keys[j+1:]...)
	m.vals = append(m.vals[:j:j], m.vals[j+1:]...)
	m.ver++
	if m.native {
		m.idx = make(map[value]int, len(m.keys))
		m.symKeys = false
		for n, k2 := range m.keys {
			if isSymKey(k2) {
				m.symKeys = true
			} else {
				m.idx[k2] = n
			}
		}
	}
}

func (m *omap) len() int {
	if m == nil {
		return 0
	}
	return len(m.keys)
}

type mapIter struct {
	i     *interpreter
	m     *omap
	keys  []value // snapshot
	order []int   // visiting order (indices into keys)
	ver   int
	pos   int
}

func newMapIter(i *interpreter, m *omap) *mapIter {
	it := &mapIter{i: i, m: m}
	if m != nil {
		it.keys = append([]value(nil), m.keys...)
		it.ver = m.ver
		it.order = i.mapOrder(len(it.keys))
	}
	return it
}

func (it *mapIter) next() tuple {
	for it.pos < len(it.order) {
		j := it.order[it.pos]
		k := it.keys[j]
		it.pos++
		if it.m.ver == it.ver {
			return tuple{true, k, it.m.vals[j]}
		}
		if v, ok := it.m.lookup(it.i, k); ok {
			return tuple{true, k, v}
		}
	}
	return tuple{false, nil, nil}
}

package main

import (
	"os"

	"verif/engine/sx"
)

func main() {
	os.Exit(sx.Main(os.Args[1:]))
}

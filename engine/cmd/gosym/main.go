package main

import (
	"os"
	"runtime/debug"

	"verif/engine/sx"
)

func main() {
	debug.SetGCPercent(400)
	os.Exit(sx.Main(os.Args[1:]))
}

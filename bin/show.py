import sys,json,collections
t=sys.stdin.read()
i=t.index('\n{')
print(t[:i])
d=json.loads(t[i:])
for x in (d['Inconclusive'] or [])[:5]: print('INCONCLUSIVE:',x[:1500])
groups=collections.OrderedDict()
def inp(v):
    out=[]
    for a in v['inputs'] or []:
        vals=a['vals']
        if a['kind'] in('bytes','string') and vals is not None:
            out.append((a['name'],bytes(vals)))
        else: out.append((a['name'],vals))
    return out
for v in (d['Violations'] or []):
    st=(v.get('stack') or '').strip().split('\n')
    key=(v['kind'],v['label'],v['msg'][:100],st[0].strip() if st else '')
    groups.setdefault(key,[]).append(v)
for k,vs in groups.items():
    print('VIOLATION x%d:'%len(vs),k)
    for v in vs[:3]: print('    inputs',inp(v))
    print('   ', '\n    '.join((vs[0].get('stack') or '').strip().split('\n')[:6]))
for s in (d['Samples'] or [])[:3]: print('SAMPLE', [(a['name'],a['vals']) for a in s['Inputs']] if s.get('Inputs') else None, s['Observes'])
for k in ('Inconclusive','Violations','Samples','Instrs'): d.pop(k,None)
print(d)

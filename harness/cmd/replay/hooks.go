//go:build verifhooks

package main

// Built only together with the overlay that gosym generates from
// /repo/pkg/ggql (x.Lock()/x.Unlock() rewritten to verifLock/verifUnlock and
// zz_verifhook.go added): routes ggql's mutex operations through the native
// scheduler so that a recorded schedule can be replayed deterministically.

import (
	"github.com/uhn/ggql/pkg/ggql"

	"verif/harness/sym"
)

func init() {
	ggql.VerifLock = func(m ggql.VerifLocker) { sym.HookLock(m) }
	ggql.VerifUnlock = func(m ggql.VerifLocker) { sym.HookUnlock(m) }
	ggql.VerifRLock = sym.HookRLock
	ggql.VerifRUnlock = sym.HookRUnlock
}

// Command replay runs harness functions natively (compiled ggql) on recorded
// inputs: counterexample confirmation and engine/native cross-validation.
//
//	replay <cases.json>     cases: [{"id":..,"harness":..,"inputs":[..],"known":[..],"finding_id":..}]
//
// It prints one JSON result per case on stdout.
package main

import (
	"encoding/json"
	"fmt"
	"os"
	"runtime/debug"
	"time"

	"verif/harness/props"
	"verif/harness/sym"
)

type Case struct {
	ID        int         `json:"id"`
	Harness   string      `json:"harness"`
	Inputs    []sym.Input `json:"inputs"`
	Known     []string    `json:"known"`
	FindingID string      `json:"finding_id"`
	Thorough  bool        `json:"thorough"`
	Free      bool        `json:"free"` // ignore the schedule: free-running goroutines (race detector build)
}

type Result struct {
	ID       int      `json:"id"`
	Status   string   `json:"status"` // ok | assert | panic | hang | assume | cut | mismatch
	Label    string   `json:"label,omitempty"`
	Msg      string   `json:"msg,omitempty"`
	Observes []string `json:"observes"`
	Stack    string   `json:"stack,omitempty"`
}

func runCase(c Case) (res Result) {
	res.ID = c.ID
	f := props.All[c.Harness]
	if f == nil {
		res.Status = "mismatch"
		res.Msg = "unknown harness " + c.Harness
		return
	}
	r := &sym.Replay{Inputs: c.Inputs, Known: map[string]bool{}, FindingID: c.FindingID, Thorough: c.Thorough, Free: c.Free}
	for _, k := range c.Known {
		r.Known[k] = true
	}
	done := make(chan Result, 1)
	go func() {
		var out Result
		out.ID = c.ID
		defer func() {
			if p := recover(); p != nil {
				switch p := p.(type) {
				case sym.AssertFailed:
					out.Status, out.Label = "assert", p.Label
				case sym.AssumeFailed:
					out.Status = "assume"
				case sym.CutPath:
					out.Status = "cut"
				case sym.Mismatch:
					out.Status, out.Msg = "mismatch", p.Msg
				default:
					out.Status, out.Msg = "panic", fmt.Sprint(p)
					out.Stack = string(debug.Stack())
				}
			}
			out.Observes = r.Observes
			done <- out
		}()
		sym.Begin(r)
		f()
		sym.Wait()
		out.Status = "ok"
	}()
	select {
	case res = <-done:
	case <-time.After(10 * time.Second):
		res.Status = "hang"
		res.Msg = "no result after 10s"
	}
	return
}

func main() {
	debug.SetMaxStack(64 << 20) // a stack overflow is fatal; keep it quick
	data, err := os.ReadFile(os.Args[1])
	if err != nil {
		fmt.Fprintln(os.Stderr, err)
		os.Exit(2)
	}
	var cases []Case
	if err := json.Unmarshal(data, &cases); err != nil {
		fmt.Fprintln(os.Stderr, err)
		os.Exit(2)
	}
	enc := json.NewEncoder(os.Stdout)
	for _, c := range cases {
		res := runCase(c)
		enc.Encode(res)
		if res.Status == "hang" {
			// the spinning goroutine cannot be stopped: let the caller restart us
			os.Exit(4)
		}
	}
}

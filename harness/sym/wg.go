package sym

import "sync"

var wg sync.WaitGroup

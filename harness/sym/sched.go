package sym

// Native side of the engine's scheduler: when a replay record carries a
// schedule (inputs of kind "sched", one per scheduling point of the engine
// run, each naming the thread that runs next), goroutines started with Go run
// one at a time under a baton and switch exactly where the engine switched:
// before every mutex acquisition of ggql (HookLock, installed through a build
// overlay that rewrites x.Lock()/x.Unlock() in a scratch copy of
// /repo/pkg/ggql), while blocked on a held mutex, at Wait and at goroutine
// exit.  Without a schedule (cross-validation of single-threaded harnesses,
// or the free-running race-detector confirmation) Go is a plain goroutine.

import (
	"fmt"
	"sync"
)

type nthread struct {
	id     int
	resume chan struct{}
	done   bool
}

type nsched struct {
	decisions []int
	pos       int
	threads   []*nthread
	cur       *nthread
	failure   interface{}
	failed    bool
}

var sched *nsched

func beginSched(r *Replay) {
	sched = nil
	if r.Free {
		return
	}
	var ds []int
	for _, in := range r.Inputs {
		if in.Kind == "sched" && len(in.Vals) == 1 {
			ds = append(ds, int(in.Vals[0]))
		}
	}
	if len(ds) == 0 {
		return
	}
	main := &nthread{id: 0, resume: make(chan struct{}, 1)}
	sched = &nsched{decisions: ds, threads: []*nthread{main}, cur: main}
}

func (s *nsched) next() *nthread {
	if s.pos >= len(s.decisions) {
		panic(Mismatch{"schedule exhausted"})
	}
	id := s.decisions[s.pos]
	s.pos++
	if id < 0 || id >= len(s.threads) {
		panic(Mismatch{fmt.Sprintf("schedule names thread %d, %d exist", id, len(s.threads))})
	}
	t := s.threads[id]
	if t.done {
		panic(Mismatch{fmt.Sprintf("schedule names finished thread %d", id)})
	}
	return t
}

// point is a scheduling point of the running thread.
func (s *nsched) point() {
	me := s.cur
	nx := s.next()
	if nx != me {
		s.cur = nx
		nx.resume <- struct{}{}
		<-me.resume
	}
	if s.failed && me.id == 0 {
		panic(s.failure)
	}
}

func (s *nsched) active() bool { return s != nil && len(s.threads) > 1 }

// Go starts f as a goroutine (under the schedule when there is one).
func Go(f func()) {
	s := sched
	if s == nil {
		wg.Add(1)
		go func() { defer wg.Done(); f() }()
		return
	}
	t := &nthread{id: len(s.threads), resume: make(chan struct{}, 1)}
	s.threads = append(s.threads, t)
	go func() {
		<-t.resume
		defer func() {
			t.done = true
			if p := recover(); p != nil {
				if !s.failed {
					s.failed, s.failure = true, p
				}
				s.cur = s.threads[0]
				s.threads[0].resume <- struct{}{}
				return
			}
			// exit: hand the baton on
			defer func() {
				if p := recover(); p != nil { // schedule mismatch
					if !s.failed {
						s.failed, s.failure = true, p
					}
					s.cur = s.threads[0]
					s.threads[0].resume <- struct{}{}
				}
			}()
			nx := s.next()
			s.cur = nx
			nx.resume <- struct{}{}
		}()
		f()
	}()
}

// Wait waits for all goroutines started with Go.
func Wait() {
	s := sched
	if s == nil {
		wg.Wait()
		return
	}
	if len(s.threads) == 1 {
		return
	}
	for {
		all := true
		for _, t := range s.threads[1:] {
			if !t.done {
				all = false
			}
		}
		if all {
			break
		}
		s.point()
	}
	if s.failed {
		panic(s.failure)
	}
}

// Yield is an explicit scheduling point.
func Yield() {
	if sched.active() {
		sched.point()
	}
}

// HookLock / HookUnlock stand in for sync.Mutex.Lock / Unlock inside ggql in
// the instrumented native build.
func HookLock(m interface {
	Lock()
	Unlock()
	TryLock() bool
}) {
	s := sched
	if !s.active() {
		m.Lock()
		return
	}
	s.point()
	for !m.TryLock() {
		if s.pos >= len(s.decisions) {
			// the engine's run ended here with no runnable goroutine
			panic("all goroutines are asleep - deadlock! (the replayed schedule ends with this goroutine blocked on a mutex)")
		}
		s.point()
	}
}

func HookUnlock(m interface{ Unlock() }) { m.Unlock() }

// HookRLock / HookRUnlock: the shared side of a sync.RWMutex.
func HookRLock(m *sync.RWMutex) {
	s := sched
	if !s.active() {
		m.RLock()
		return
	}
	s.point()
	for !m.TryRLock() {
		if s.pos >= len(s.decisions) {
			panic("all goroutines are asleep - deadlock! (the replayed schedule ends with this goroutine blocked on a mutex)")
		}
		s.point()
	}
}

func HookRUnlock(m *sync.RWMutex) { m.RUnlock() }

// Preemptions bounds the number of preemptive context switches per explored
// schedule for the rest of the harness (engine only; the tier's own bound
// applies when it is tighter).
func Preemptions(n int) {}

// Package sym is the harness-side API of the gosym engine (DESIGN.md
// Appendix B).  Under the engine every function here is intercepted; the
// bodies below are the *native* implementation used when a solver model is
// replayed against the compiled ggql: inputs are read back, in call order,
// from the replay record.
package sym

import (
	"fmt"
	"math"
	"reflect"
	"sort"
	"strconv"
	"strings"
	"sync/atomic"
)

// Input is one recorded sym.* call with its model value(s).
type Input struct {
	Name string   `json:"name"`
	Kind string   `json:"kind"`
	N    int      `json:"n,omitempty"`
	Vals []uint64 `json:"vals"`
}

// Replay is the state of a native replay.
type Replay struct {
	Inputs    []Input
	Known     map[string]bool // ids listed in known_findings.json
	FindingID string
	Thorough  bool
	Free      bool // ignore the recorded schedule: goroutines run freely (race-detector confirmation)
	pos       int
	Observes  []string
	Covers    []string
}

// AssertFailed / AssumeFailed / Mismatch are raised by panics and caught by the runner.
type AssertFailed struct{ Label string }
type AssumeFailed struct{}
type CutPath struct{}
type Mismatch struct{ Msg string }

var cur *Replay

// Begin installs a replay record (native runs only).
func Begin(r *Replay) { cur = r; atomic.StoreInt64(&stamp, 0); beginSched(r) }

func next(kind, name string) Input {
	if cur == nil {
		panic(Mismatch{"sym." + kind + " called outside a replay"})
	}
	for cur.pos < len(cur.Inputs) && cur.Inputs[cur.pos].Kind == "sched" {
		cur.pos++
	}
	if cur.pos >= len(cur.Inputs) {
		panic(Mismatch{fmt.Sprintf("replay exhausted at sym call %q (%s)", name, kind)})
	}
	in := cur.Inputs[cur.pos]
	cur.pos++
	if in.Kind != kind {
		panic(Mismatch{fmt.Sprintf("replay input %d is %s %q, harness asked for %s %q", cur.pos-1, in.Kind, in.Name, kind, name)})
	}
	return in
}

func one(kind, name string) uint64 {
	in := next(kind, name)
	if len(in.Vals) != 1 {
		panic(Mismatch{"bad value count for " + name})
	}
	return in.Vals[0]
}

func Bool(name string) bool       { return one("bool", name)&1 == 1 }
func Byte(name string) byte       { return byte(one("uint8", name)) }
func Int(name string) int         { return int(one("int", name)) }
func Int8(name string) int8       { return int8(one("int8", name)) }
func Int16(name string) int16     { return int16(one("int16", name)) }
func Int32(name string) int32     { return int32(one("int32", name)) }
func Int64(name string) int64     { return int64(one("int64", name)) }
func Uint(name string) uint       { return uint(one("uint", name)) }
func Uint8(name string) uint8     { return uint8(one("uint8", name)) }
func Uint16(name string) uint16   { return uint16(one("uint16", name)) }
func Uint32(name string) uint32   { return uint32(one("uint32", name)) }
func Uint64(name string) uint64   { return one("uint64", name) }
func Float32(name string) float32 { return math.Float32frombits(uint32(one("float32", name))) }
func Float64(name string) float64 { return math.Float64frombits(one("float64", name)) }

// Bytes returns n symbolic bytes.
func Bytes(name string, n int) []byte {
	in := next("bytes", name)
	if len(in.Vals) != n {
		panic(Mismatch{"bad length for " + name})
	}
	b := make([]byte, n)
	for i, v := range in.Vals {
		b[i] = byte(v)
	}
	return b
}

// String returns a string of n symbolic bytes.
func String(name string, n int) string {
	in := next("string", name)
	if len(in.Vals) != n {
		panic(Mismatch{"bad length for " + name})
	}
	b := make([]byte, n)
	for i, v := range in.Vals {
		b[i] = byte(v)
	}
	return string(b)
}

// Choice returns a value in 0..k-1; every value is explored (case split).
func Choice(name string, k int) int {
	in := next("choice", name)
	return int(in.Vals[0])
}

// Assume restricts the inputs (place it before the code it constrains).
func Assume(c bool) {
	if !c {
		panic(AssumeFailed{})
	}
}

// Assert states an obligation.
func Assert(c bool, label string) {
	if !c {
		panic(AssertFailed{label})
	}
}

// Cover is a reachability witness.
func Cover(label string) {
	if cur != nil {
		cur.Covers = append(cur.Covers, label)
	}
}

// Known delimits the region of a recorded known finding (DESIGN.md §4).
func Known(id string, region bool) bool {
	if cur == nil || !cur.Known[id] {
		return false
	}
	if cur.FindingID == id {
		if !region {
			panic(AssumeFailed{})
		}
		return false
	}
	return region
}

// Cut ends the path (neither success nor failure).
func Cut() { panic(CutPath{}) }

// And, Or, Implies combine conditions without branching (one solver term
// under the engine; the operands are evaluated eagerly).
func And(cs ...bool) bool {
	for _, c := range cs {
		if !c {
			return false
		}
	}
	return true
}

func Or(cs ...bool) bool {
	for _, c := range cs {
		if c {
			return true
		}
	}
	return false
}

func Implies(a, b bool) bool { return !a || b }

// Budget bounds the number of SSA instructions the rest of the path may
// execute under the engine (a loop/recursion budget derived from the input
// size); exceeding it is reported as non-termination and confirmed natively
// under a watchdog.
func Budget(steps int) {}

// Contains is strings.Contains as one solver term (no forking).
func Contains(s, sub string) bool { return strings.Contains(s, sub) }

// Thorough reports whether the check runs in the thorough tier (harnesses
// pick their larger bounds with it).
func Thorough() bool { return cur != nil && cur.Thorough }

// Symbolic reports whether the harness runs under the engine.
func Symbolic() bool { return false }

// MapOrder switches symbolic map iteration order on or off (engine only).
func MapOrder(on bool) {}

// Observe records a value for engine/native cross-validation.
func Observe(label string, v interface{}) {
	if cur != nil {
		cur.Observes = append(cur.Observes, label+"="+Render(v))
	}
}

// DeepEqual is structural equality (one solver term under the engine).
func DeepEqual(a, b interface{}) bool { return reflect.DeepEqual(a, b) }

// Stamp returns the next value of a global logical clock (1, 2, ...): it
// orders events of different goroutines without being shared memory (no
// scheduling point, no monitored cell under the engine).
func Stamp() int { return int(atomic.AddInt64(&stamp, 1)) }

var stamp int64

// Render is the canonical text of a value (must agree with the engine's render).
func Render(v interface{}) string {
	if v == nil {
		return "nil"
	}
	rv := reflect.ValueOf(v)
	if e, ok := v.(error); ok {
		if rv.Kind() == reflect.Ptr && rv.IsNil() {
			return typeTag(rv.Type()) + ":nil"
		}
		return "error:" + strconv.Quote(e.Error())
	}
	return typeTag(rv.Type()) + ":" + renderValue(rv)
}

func typeTag(t reflect.Type) string {
	s := t.String()
	s = strings.ReplaceAll(s, "interface {}", "interface{}")
	s = strings.ReplaceAll(s, "interface{}", "any")
	return s
}

func renderValue(rv reflect.Value) string {
	switch rv.Kind() {
	case reflect.Bool:
		return strconv.FormatBool(rv.Bool())
	case reflect.Int, reflect.Int8, reflect.Int16, reflect.Int32, reflect.Int64:
		return strconv.FormatInt(rv.Int(), 10)
	case reflect.Uint, reflect.Uint8, reflect.Uint16, reflect.Uint32, reflect.Uint64, reflect.Uintptr:
		return strconv.FormatUint(rv.Uint(), 10)
	case reflect.Float32, reflect.Float64:
		return strconv.FormatFloat(rv.Float(), 'g', -1, 64)
	case reflect.String:
		return strconv.Quote(rv.String())
	case reflect.Interface:
		if rv.IsNil() {
			return "nil"
		}
		return Render(rv.Interface())
	case reflect.Slice:
		if rv.IsNil() {
			return "nil"
		}
		parts := make([]string, rv.Len())
		for i := range parts {
			parts[i] = renderValue(rv.Index(i))
		}
		return "[" + strings.Join(parts, ",") + "]"
	case reflect.Map:
		if rv.IsNil() {
			return "nil"
		}
		var parts []string
		it := rv.MapRange()
		for it.Next() {
			parts = append(parts, renderValue(it.Key())+":"+renderValue(it.Value()))
		}
		sort.Strings(parts)
		return "{" + strings.Join(parts, ",") + "}"
	case reflect.Ptr:
		if rv.IsNil() {
			return "nil"
		}
		return "&"
	case reflect.Struct:
		parts := make([]string, rv.NumField())
		for i := range parts {
			parts[i] = renderValue(rv.Field(i))
		}
		return "(" + strings.Join(parts, ",") + ")"
	}
	return "<" + rv.Type().String() + ">"
}

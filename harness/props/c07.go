package props

import (
	"strconv"
	"unicode/utf8"

	"github.com/uhn/ggql/pkg/ggql"

	"verif/harness/sym"
)

// envelopeOK is the reference predicate for a GraphQL response envelope.
// rejected: the request was refused before execution (parse/validation).
func envelopeProblem(res map[string]interface{}) string {
	if res == nil {
		return "nil response"
	}
	_, hasData := res["data"]
	errsV, hasErrs := res["errors"]
	if !hasData && !hasErrs {
		return "neither data nor errors"
	}
	for k := range res {
		if k != "data" && k != "errors" {
			return "unexpected top-level key"
		}
	}
	if hasErrs {
		errs, ok := errsV.([]interface{})
		if !ok || len(errs) == 0 {
			return "errors is not a non-empty list"
		}
		for _, e := range errs {
			em, ok := e.(map[string]interface{})
			if !ok {
				return "error entry is not a map"
			}
			msg, ok := em["message"].(string)
			if !ok || len(msg) == 0 {
				return "error without a non-empty string message"
			}
			if pv, has := em["path"]; has {
				path, ok := pv.([]interface{})
				if !ok {
					return "path is not a list"
				}
				for _, el := range path {
					switch t := el.(type) {
					case string:
					case int:
						if t < 0 {
							return "negative path index"
						}
					default:
						return "path element is neither string nor int"
					}
				}
			}
			if lv, has := em["locations"]; has {
				locs, ok := lv.([]interface{})
				if !ok || len(locs) == 0 {
					return "locations is not a non-empty list"
				}
				for _, l := range locs {
					lm, ok := l.(map[string]interface{})
					if !ok {
						return "location is not a map"
					}
					line, ok1 := lm["line"].(int)
					col, ok2 := lm["column"].(int)
					if !ok1 || !ok2 {
						return "location line/column are not ints"
					}
					if line < 1 || col < 1 {
						return "location line/column not positive"
					}
				}
			}
		}
	}
	return ""
}

// normalize maps a response to what a JSON reader yields for it.
func normalize(v interface{}) interface{} {
	switch tv := v.(type) {
	case int:
		return int64(tv)
	case int32:
		return int64(tv)
	case int16:
		return int64(tv)
	case ggql.Symbol:
		return string(tv)
	case string:
		return string([]rune(tv))
	case []interface{}:
		out := []interface{}{}
		for _, e := range tv {
			out = append(out, normalize(e))
		}
		return out
	case map[string]interface{}:
		out := map[string]interface{}{}
		for k, e := range tv {
			out[string([]rune(k))] = normalize(e)
		}
		return out
	}
	return v
}

func checkSerialises(res map[string]interface{}) {
	for _, indent := range []int{-1, 0, 2} {
		text := jsonText(res, indent)
		jv, ok := parseJSON(text)
		sym.Assert(ok, "response serialises to valid JSON")
		sym.Assert(sym.DeepEqual(jv, normalize(res)), "JSON decodes back to the same structure")
	}
}

// C07_envelope_bytes: malformed requests: every byte string up to N bytes.
func C07_envelope_bytes() {
	n := lenChoice("len", 4, 6)
	src := sym.Bytes("src", n)
	var log []string
	root := kitRoot(newGraphWith(&log, 1, false))
	sym.Budget(3_000_000)
	res := root.ResolveBytes(src, "", nil)
	sym.Observe("res", res)
	p := envelopeProblem(res)
	if sym.Known("C07-newline-after-token-location", p == "location line/column not positive") {
		return
	}
	sym.Assert(p == "", "well-formed envelope")
	if _, hasErrs := res["errors"]; hasErrs && len(log) == 0 {
		sym.Assert(res["data"] == nil, "rejected request has no data")
	}
	checkSerialises(res)
}

// C07_envelope_invalid: the invalid requests of C10 (one undefined thing) and
// failing resolvers (errors with paths).
func C07_envelope_invalid() {
	var log []string
	q := newGraphWith(&log, 2, false)
	root := kitRoot(q)
	docs := []string{
		"{a zz}", "{o{zz}}", "{l{a zz}}", "{a(x:1)}", "{a @nope}", "{...on Nope{a}}", "{...F}", "query($v:Int!){a}", "{a} {s}",
		"{a o{a s} l{s}}", "{ll}", "{o{o{o{a}}}}",
	}
	doc := docs[sym.Choice("doc", len(docs))]
	plan := &failPlan{at: sym.Choice("failAt", 5) - 1, group: sym.Choice("group", 3)}
	for _, n := range []*node{q, q.oAlt, q.lAlts[3][0]} {
		n.fail = plan
	}
	sym.Budget(3_000_000)
	res := root.ResolveString(doc, "", nil)
	sym.Observe("res", res)
	sym.Assert(envelopeProblem(res) == "", "well-formed envelope")
	checkSerialises(res)
}

// sepByte is one separator byte: space, tab, newline, carriage return, comma.
func sepByte(name string) string {
	s := sym.String(name, 1)
	sym.Assume(sym.Or(s == " ", s == "\t", s == "\n", s == "\r", s == ","))
	return s
}

func gap(name string) string {
	g := sepByte(name + ".0")
	switch sym.Choice(name+" form", 3) {
	case 1:
		g += sepByte(name + ".1")
	case 2:
		g += "#c\n"
	}
	return g
}

// lineCol computes the 1-based line and column of offset off in doc.
func lineCol(doc string, off int) (line, col, lineLen int) {
	line, col = 1, 1
	start := 0
	for i := 0; i < off; i++ {
		if doc[i] == '\n' {
			line++
			col = 1
			start = i + 1
		} else {
			col++
		}
	}
	end := start
	for end < len(doc) && doc[end] != '\n' {
		end++
	}
	return line, col, end - start
}

// C07_loc: the location reported for an offending token lies on that token's
// line in the submitted document, for every layout of the separators.
func C07_loc() {
	var log []string
	q := newGraphWith(&log, 1, false)
	q.lAlts, q.o, q.oVar = nil, q.oAlt, 1 // the object field is never null here
	root := kitRoot(q)
	var doc string
	var off int
	switch sym.Choice("defect", 4) {
	case 0: // undefined field
		doc = "{" + gap("g1") + "a" + gap("g2")
		off = len(doc)
		doc += "zz" + gap("g3") + "}"
	case 1: // undefined field, nested
		doc = "{" + gap("g1") + "o" + gap("g2") + "{" + gap("g3")
		off = len(doc)
		doc += "zz" + gap("g4") + "}}"
	case 2: // unknown directive
		doc = "{" + gap("g1") + "a" + gap("g2")
		off = len(doc)
		doc += "@nope" + gap("g3") + "}"
	default: // undeclared argument
		doc = "{" + gap("g1") + "a("
		off = len(doc)
		doc += "x" + gap("g2") + ":1)" + gap("g3") + "}"
	}
	sym.Observe("doc", doc)
	sym.Budget(3_000_000)
	res := root.ResolveString(doc, "", nil)
	sym.Observe("res", res)
	errs, _ := res["errors"].([]interface{})
	sym.Assert(len(errs) > 0, "an error is reported")
	wantLine, _, lineLen := lineCol(doc, off)
	nextIsNewline := false
	for i := off; i < len(doc); i++ {
		c := doc[i]
		if !(c >= 'a' && c <= 'z') && c != '@' {
			nextIsNewline = c == '\n'
			break
		}
	}
	if sym.Known("C07-newline-after-token-location", nextIsNewline) {
		return
	}
	for _, e := range errs {
		em, _ := e.(map[string]interface{})
		locs, has := em["locations"].([]interface{})
		if !has {
			continue
		}
		for _, l := range locs {
			lm, _ := l.(map[string]interface{})
			line, _ := lm["line"].(int)
			col, _ := lm["column"].(int)
			sym.Assert(line >= 1 && col >= 1, "line and column are positive")
			sym.Assert(line == wantLine, "location is on the offending token's line")
			sym.Assert(col <= lineLen+1, "column lies within that line")
		}
	}
}

// ---- leaves of every scalar kind in the response, floats of every text form

const c07LeafSchema = `type Query { f: Float g: Float64 fl: [Float64] b: Boolean i: Int t: String id: ID }`

var c07Floats = []float64{0, 2.5, -0.75, 3, 1e20, 1e21, -4e22, 2e-5, 1.5e-7, 5e-324, 1.7976931348623157e308, 123456789.125, 1e-4, 1e100}

type c07LeafNode struct {
	f  float64
	g  float64
	i  int32
	t  string
	b  bool
	id string
}

func (n *c07LeafNode) Resolve(field *ggql.Field, args map[string]interface{}) (interface{}, error) {
	switch field.Name {
	case "query":
		return n, nil
	case "f":
		return float32(n.f), nil
	case "g":
		return n.g, nil
	case "fl":
		return []interface{}{n.g, n.f, nil}, nil
	case "b":
		return n.b, nil
	case "i":
		return n.i, nil
	case "t":
		return n.t, nil
	case "id":
		return n.id, nil
	}
	return nil, nil
}

// C07_leaves: a response carrying every scalar kind (floats in plain and in
// exponent form, E; strings of every content, S) serialises to valid JSON
// that decodes back to the same structure.
func C07_leaves() {
	g := c07Floats[sym.Choice("float", len(c07Floats))]
	f := g
	if f > 3e38 || (f != 0 && f < 1e-37) {
		f = -2e-5 // (outside float32: another exponent form)
	}
	n := &c07LeafNode{f: f, g: g, i: 7, t: sym.String("t", 1), b: sym.Bool("b"), id: "k"}
	sym.Assume(utf8.ValidString(n.t))
	root := ggql.NewRoot(n)
	if err := root.ParseString(c07LeafSchema); err != nil {
		panic("harness schema rejected: " + err.Error())
	}
	res := root.ResolveString("{f g fl b i t id}", "", nil)
	sym.Observe("res", res)
	sym.Assert(res["errors"] == nil, "valid request has no errors")
	sym.Assert(envelopeProblem(res) == "", "well-formed envelope")
	for _, indent := range []int{-1, 0, 2} {
		text := jsonText(res, indent)
		jv, ok := parseJSON(text)
		sym.Assert(ok, "response serialises to valid JSON")
		sym.Assert(c07Same(jv, res), "JSON decodes back to the same structure")
	}
}

// c07Same compares a decoded JSON value with the written one; a float is the
// same when its JSON number text parses back to it.
func c07Same(j, v interface{}) bool {
	switch tv := v.(type) {
	case float32:
		switch tj := j.(type) {
		case int64:
			return float32(tj) == tv
		case jnum:
			f, err := strconv.ParseFloat(string(tj), 32)
			return err == nil && float32(f) == tv
		}
		return false
	case float64:
		switch tj := j.(type) {
		case int64:
			return float64(tj) == tv
		case jnum:
			f, err := strconv.ParseFloat(string(tj), 64)
			return err == nil && f == tv
		}
		return false
	case []interface{}:
		tj, ok := j.([]interface{})
		if !ok || len(tj) != len(tv) {
			return false
		}
		for k := range tv {
			if !c07Same(tj[k], tv[k]) {
				return false
			}
		}
		return true
	case map[string]interface{}:
		tj, ok := j.(map[string]interface{})
		if !ok || len(tj) != len(tv) {
			return false
		}
		for k, e := range tv {
			je, has := tj[string([]rune(k))]
			if !has || !c07Same(je, e) {
				return false
			}
		}
		return true
	}
	return sym.DeepEqual(j, normalize(v))
}

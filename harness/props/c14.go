package props

// C14 - schema loading is all-or-nothing.  A root with a schema loaded; then a
// failing document made of S-included valid parts (new type, extensions of
// every kind, a schema block, a directive) and one failing part of an E class
// (syntax, undefined reference, duplicate, failed extension, validation
// rule, reader fault at an S offset), the failing part before or after the
// valid ones.  Observables (printed schema, introspection, request
// responses, type lookups) must be what they were; a later valid load must
// behave as on a root that never saw the failing document.

import (
	"github.com/uhn/ggql/pkg/ggql"

	"verif/harness/sym"
)

const c14Base = `
type Query { a: Int e: E u: U g(in: In): Int o: A }
enum E { X Y }
union U = A | B
type A { x: Int }
type B { y: Int }
input In { f: Int }
interface I { x: Int }
directive @d(n: Int = 1) on FIELD_DEFINITION | OBJECT
`

var c14ValidParts = []string{
	"type N { z: Int }",
	"extend type Query { b: Int }",
	"extend enum E { Z }",
	"type A2 { q: Int } extend union U = A2",
	"extend input In { h: Int }",
	"schema { query: A }",
	"directive @d2 on FIELD_DEFINITION",
	"extend interface I { w: Int }",
	"extend type B @d(n: 2)",
	"type Mutation { m: Int }",
	"type Subscription { s: A }",
}

var c14FailParts = []string{
	"type {",                          // syntax
	"type Z1 { f: Nope }",             // undefined reference
	"type A { x: Int }",               // duplicate type
	"extend type Nope { a: Int }",     // extension of an unknown type
	"extend enum E { X }",             // extension with a duplicate member
	"type __Bad { x: Int }",           // reserved name
	"union V = E",                     // a union of a non-object
	"type Z2 implements I { k: Int }", // interface not satisfied
	"extend type Query { a: Int }",    // duplicate field through an extension
	// extensions that add something new before they hit the duplicate
	"extend type Query { fresh: Int a: Int }",
	"extend enum E { W X }",
	"type A3 { q: Int } extend union U = A3 | A",
	"extend input In { k: Int f: Int }",
	"extend interface I { v: Int x: Int }",
}

const c14Later = "type Late { l: Int } extend type Query { late: Late } type Mutation { lm: Int }"

type c14Node struct{}

func (n *c14Node) Resolve(field *ggql.Field, args map[string]interface{}) (interface{}, error) {
	switch field.Name {
	case "query", "mutation", "subscription", "o", "u", "late":
		return n, nil
	case "e":
		return "X", nil
	}
	return int32(3), nil
}

const c14Introspection = `{__schema{queryType{name} mutationType{name} subscriptionType{name} types{kind name fields{name type{kind name ofType{name}} args{name}} enumValues{name} possibleTypes{name} inputFields{name} interfaces{name}} directives{name locations args{name}}}}`

var c14Requests = []string{"{a e o{x}}", "{b late{l}}", "{x}", "{g(in:{f:1})}", "{g(in:{h:1})}", "mutation{m}", "mutation{lm}"}

type c14Obs struct {
	sdl    string
	intro  map[string]interface{}
	res    []map[string]interface{}
	lookup []bool
}

func c14Observe(root *ggql.Root) *c14Obs {
	o := &c14Obs{sdl: root.SDL(true, true)}
	o.intro = root.ResolveString(c14Introspection, "", nil)
	for _, r := range c14Requests {
		o.res = append(o.res, root.ResolveString(r, "", nil))
	}
	for _, name := range []string{"Query", "A", "N", "A2", "Late", "Z1", "Z2", "V", "d", "d2", "__Bad", "Mutation", "Subscription"} {
		o.lookup = append(o.lookup, root.GetType(name) != nil)
	}
	return o
}

func c14Same(a, b *c14Obs) (sdl, intro, res, lookup bool) {
	sdl = a.sdl == b.sdl
	intro = sym.DeepEqual(interface{}(a.intro), interface{}(b.intro))
	res = true
	for k := range a.res {
		res = res && sym.DeepEqual(interface{}(a.res[k]), interface{}(b.res[k]))
	}
	lookup = true
	for k := range a.lookup {
		lookup = lookup && a.lookup[k] == b.lookup[k]
	}
	return
}

func c14Root() *ggql.Root {
	root := ggql.NewRoot(&c14Node{})
	if err := root.ParseString(c14Base); err != nil {
		panic("harness schema rejected: " + err.Error())
	}
	return root
}

func c14AssertUnchanged(before, after *c14Obs) {
	sdl, intro, res, lookup := c14Same(before, after)
	sym.Assert(sdl, "printed schema unchanged by the failed load")
	sym.Assert(intro, "introspection unchanged by the failed load")
	sym.Assert(res, "request responses unchanged by the failed load")
	sym.Assert(lookup, "type lookups unchanged by the failed load")
}

func c14AssertLater(before, after *c14Obs) {
	sdl, intro, res, lookup := c14Same(before, after)
	sym.Assert(sdl, "printed schema after a later valid load as if the failed load never happened")
	sym.Assert(intro, "introspection after a later valid load as if the failed load never happened")
	sym.Assert(res, "request responses after a later valid load as if the failed load never happened")
	sym.Assert(lookup, "type lookups after a later valid load as if the failed load never happened")
}

// C14_atomic: one failing load.
func C14_atomic() {
	root := c14Root()
	before := c14Observe(root)
	// the failing document
	failK := sym.Choice("failure", len(c14FailParts))
	fail := c14FailParts[failK]
	failFirst := sym.Choice("failing part first", 2) == 1
	doc := ""
	// quick: no valid part, one of them, or all; thorough: subsets (S
	// booleans) for the first nine failure classes, the quick family for the
	// partial-extension ones (all fourteen with subsets did not fit 45 minutes)
	subsets := sym.Thorough() && failK < 9
	which := -2
	tail := false
	if !subsets {
		which = sym.Choice("valid parts", len(c14ValidParts)+2) - 2 // -2: none, -1: all, k: only part k
	}
	for k, p := range c14ValidParts {
		include := which == -1 || which == k
		if subsets {
			// every subset of the first seven parts; the last four go together
			if k < 7 {
				include = sym.Bool("part " + string(rune('0'+k)))
			} else {
				if k == 7 {
					tail = sym.Bool("parts 7-10")
				}
				include = tail
			}
		}
		if include {
			doc += p + "\n"
		}
	}
	if failFirst {
		doc = fail + "\n" + doc
	} else {
		doc += fail + "\n"
	}
	sym.Observe("doc", doc)
	sym.Budget(40_000_000)
	err := root.ParseString(doc)
	sym.Assert(err != nil, "the failing document is refused")
	after := c14Observe(root)
	c14AssertUnchanged(before, after)
	// a later valid load behaves as on a root that never saw the failing document
	sym.Assert(root.ParseString(c14Later) == nil, "later valid load accepted")
	fresh := c14Root()
	if fresh.ParseString(c14Later) != nil {
		panic("harness: later document refused by a fresh root")
	}
	c14AssertLater(c14Observe(fresh), c14Observe(root))
}

// C14_fault: the reader fails at an S-chosen offset of a valid document.
func C14_fault() {
	root := c14Root()
	before := c14Observe(root)
	docs := []string{
		"type N { z: Int }\nextend type Query { b: Int }\nschema { query: A }\n",
		"extend enum E { Z }\ndirective @d2 on FIELD_DEFINITION\ntype A2 { q: Int }\n",
	}
	doc := docs[sym.Choice("doc", len(docs))]
	at := sym.Choice("fault offset", len(doc))
	sym.Budget(40_000_000)
	err := root.ParseReader(&faultReader{data: doc, failAt: at})
	sym.Assert(err != nil, "the fault surfaces as an error")
	after := c14Observe(root)
	c14AssertUnchanged(before, after)
	sym.Assert(root.ParseString(c14Later) == nil, "later valid load accepted")
	fresh := c14Root()
	if fresh.ParseString(c14Later) != nil {
		panic("harness: later document refused by a fresh root")
	}
	c14AssertLater(c14Observe(fresh), c14Observe(root))
}

// C14_first: failing loads into a root that has no schema yet, then a valid one.
func C14_first() {
	root := ggql.NewRoot(&c14Node{})
	// the failing parts that fail on an empty root too
	firstFails := []int{0, 1, 3, 4, 5, 6, 7}
	fail := c14FailParts[firstFails[sym.Choice("failure", len(firstFails))]]
	doc := "type Query { stale: Int }\n"
	if sym.Bool("schema block") {
		doc += "schema { query: Query }\n"
	}
	sym.Budget(40_000_000)
	err := root.ParseString(doc + fail)
	sym.Assert(err != nil, "the failing document is refused")
	sym.Assert(root.ParseString(c14Base) == nil, "later valid load accepted")
	c14AssertLater(c14Observe(c14Root()), c14Observe(root))
}

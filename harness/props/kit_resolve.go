package props

// Resolver-level harness kit: a small schema, a data graph of Resolver nodes
// with an invocation log, a request-shape grammar rendered to text, and an
// independent reference executor (GraphQL CollectFields / ExecuteSelectionSet
// written from the specification; it never calls ggql).

import (
	"github.com/uhn/ggql/pkg/ggql"

	"verif/harness/sym"
)

const kitSchema = `
type Query { a: Int s: String o: Obj l: [Obj] ll: [[Int]] n: Obj }
type Obj { a: Int s: String o: Obj l: [Obj] }
`

// ---------------------------------------------------------------- data graph

type node struct {
	typ string // "Query" or "Obj"
	a   interface{}
	s   interface{}
	o   *node
	l   []*node
	ll  [][]interface{}
	isN bool // "n" field resolves to a nil *node
	// lazily drawn variants (so that a request that does not touch a field
	// does not multiply paths)
	oVar, lVar int // 0 = not drawn yet
	oAlt       *node
	lAlts      [][]*node
	log        *[]string
	fail       *failPlan
	id         string
}

// failPlan makes the k-th resolver invocation fail (C06).
type failPlan struct {
	at    int // invocation number that fails (-1: none)
	count int
	group int // 0: plain error; n>0: an Errors group of n members
	wrap  bool // the group is handed over wrapped in another error (%w style)
}

// wrapped is an error that wraps another one, as fmt.Errorf("...: %w", err) does.
type wrapped struct{ inner error }

func (e *wrapped) Error() string { return "wrapped: " + e.inner.Error() }
func (e *wrapped) Unwrap() error { return e.inner }

type injected struct{ msg string }

func (e *injected) Error() string { return e.msg }

func (n *node) Resolve(field *ggql.Field, args map[string]interface{}) (interface{}, error) {
	if n.log != nil {
		*n.log = append(*n.log, n.id+"."+field.Name)
	}
	if n.fail != nil {
		k := n.fail.count
		n.fail.count++
		if k == n.fail.at {
			if n.fail.group > 0 {
				var es ggql.Errors
				for i := 0; i < n.fail.group; i++ {
					es = append(es, &injected{"injected"})
				}
				if n.fail.wrap {
					return nil, &wrapped{es}
				}
				return nil, es
			}
			return nil, &injected{"injected"}
		}
	}
	switch field.Name {
	case "query", "mutation":
		return n, nil
	case "a":
		return n.a, nil
	case "s":
		return n.s, nil
	case "o":
		if o := n.getO(); o != nil {
			return o, nil
		}
		return nil, nil
	case "n":
		return (*node)(nil), nil
	case "l":
		l := n.getL()
		if l == nil {
			return nil, nil
		}
		out := make([]interface{}, len(l))
		for i, e := range l {
			if e == nil {
				out[i] = nil
			} else {
				out[i] = e
			}
		}
		return out, nil
	case "ll":
		if n.ll == nil {
			return nil, nil
		}
		out := make([]interface{}, len(n.ll))
		for i, e := range n.ll {
			if e == nil {
				out[i] = nil
			} else {
				out[i] = e
			}
		}
		return out, nil
	}
	return nil, nil
}

// newGraph builds the data graph: S leaf values, S null-ness, E list lengths.
// q.o -> o1 ; o1.o -> o1 (cycle) or nil ; q.l -> [o1, o2, nil?]
func newGraph(log *[]string, maxList int) *node {
	return newGraphWith(log, maxList, true)
}

// newGraphWith: symInts=false keeps the Int leaves concrete (for harnesses
// that print responses: decimal formatting of a full-width symbolic integer
// is value enumeration, DESIGN.md section 3.4).
func newGraphWith(log *[]string, maxList int, symInts bool) *node {
	n := int32(40)
	mk := func(id, typ string) *node {
		n++
		var a interface{} = n
		if symInts {
			a = sym.Int32(id + ".a")
		}
		return &node{id: id, typ: typ, log: log, a: a, s: sym.String(id+".s", 1)}
	}
	q := mk("q", "Query")
	o1 := mk("o1", "Obj")
	o2 := mk("o2", "Obj")
	o1.oAlt = o1 // cyclic, or nil
	q.oAlt = o1  // or nil
	q.lAlts = [][]*node{nil, {}, {o1}, {o2, nil}, {o1, o2, o1}}[:maxList+2]
	o1.lAlts = [][]*node{{o2}}
	o2.lAlts = [][]*node{{}}
	if symInts {
		q.ll = [][]interface{}{{sym.Int32("ll00")}, nil, {}}
	} else {
		q.ll = [][]interface{}{{int32(5)}, nil, {}}
	}
	return q
}

// getO draws (once) whether the object field is null.
func (n *node) getO() *node {
	if n.oVar == 0 {
		n.oVar = 1
		if n.oAlt != nil && !sym.Bool(n.id+".o null") {
			n.o = n.oAlt
		}
	}
	return n.o
}

// getL draws (once) the list variant.
func (n *node) getL() []*node {
	if n.lVar == 0 {
		n.lVar = 1
		if len(n.lAlts) > 0 {
			n.l = n.lAlts[sym.Choice(n.id+".l variant", len(n.lAlts))]
		}
	}
	return n.l
}

func kitRoot(q *node) *ggql.Root {
	root := ggql.NewRoot(q)
	if err := root.ParseString(kitSchema); err != nil {
		panic("harness schema rejected: " + err.Error())
	}
	return root
}

// ---------------------------------------------------------------- request shapes

const (
	selField = iota
	selInline
	selSpread
)

type sel struct {
	kind  int
	name  string // field name
	alias string // "" = none
	cond  string // type condition of an inline fragment / fragment ("" = none for inline)
	frag  string // fragment name for a spread
	sub   []*sel
	dirs  string // rendered directives (C09)
	args  string // rendered arguments
}

func (s *sel) key() string {
	if s.alias != "" {
		return s.alias
	}
	return s.name
}

type shape struct {
	sels  []*sel
	frags map[string]*sel // name -> fragment (kind selInline with cond, sub)
	order []string
}

func renderSels(sels []*sel) string {
	out := "{"
	for i, s := range sels {
		if i > 0 {
			out += " "
		}
		switch s.kind {
		case selField:
			if s.alias != "" {
				out += s.alias + ":"
			}
			out += s.name + s.args + s.dirs
			if len(s.sub) > 0 {
				out += renderSels(s.sub)
			}
		case selInline:
			out += "..."
			if s.cond != "" {
				out += " on " + s.cond
			}
			out += s.dirs + renderSels(s.sub)
		case selSpread:
			out += "..." + s.frag + s.dirs
		}
	}
	return out + "}"
}

func (sh *shape) render() string {
	out := renderSels(sh.sels)
	for _, name := range sh.order {
		f := sh.frags[name]
		out += " fragment " + name + " on " + f.cond + renderSels(f.sub)
	}
	return out
}

// shapeGen draws a request shape from a bounded grammar (E-dimensions), with
// S aliases drawn from the schema's own field alphabet so that aliases collide
// with names and with each other.
type shapeGen struct {
	budget int // selections left
	sh     *shape
	nfrag  int
}

func aliasByte(name string) string {
	a := sym.String(name, 1)
	sym.Assume(sym.Or(a == "a", a == "s", a == "o", a == "x"))
	return a
}

func (g *shapeGen) selSet(typ string, depth int) []*sel {
	n := 1
	if g.budget > 1 {
		n = 1 + sym.Choice("nsel", 2)
	}
	var out []*sel
	for i := 0; i < n && g.budget > 0; i++ {
		g.budget--
		kinds := 4
		if depth > 0 && g.budget > 0 {
			kinds = 9
		}
		switch sym.Choice("sel", kinds) {
		case 0:
			out = append(out, &sel{kind: selField, name: "a"})
		case 1:
			out = append(out, &sel{kind: selField, name: "s"})
		case 2:
			out = append(out, &sel{kind: selField, name: "a", alias: aliasByte("alias")})
		case 3:
			out = append(out, &sel{kind: selField, name: "__typename"})
		case 4:
			out = append(out, &sel{kind: selField, name: "o", sub: g.selSet("Obj", depth-1)})
		case 5:
			out = append(out, &sel{kind: selField, name: "l", sub: g.selSet("Obj", depth-1)})
		case 6:
			out = append(out, &sel{kind: selField, name: "o", alias: aliasByte("alias"), sub: g.selSet("Obj", depth-1)})
		case 7:
			cond := ""
			switch sym.Choice("cond", 3) {
			case 1:
				cond = typ
			case 2:
				if typ == "Query" {
					cond = "Obj"
				} else {
					cond = "Query"
				}
			}
			out = append(out, &sel{kind: selInline, cond: cond, sub: g.selSet(typ, depth-1)})
		case 8:
			g.nfrag++
			name := "F" + string(rune('0'+g.nfrag))
			g.sh.frags[name] = &sel{kind: selInline, cond: typ, sub: g.selSet(typ, depth-1)}
			g.sh.order = append(g.sh.order, name)
			out = append(out, &sel{kind: selSpread, frag: name})
		}
	}
	return out
}

func genShape(budget, depth int) *shape {
	sh := &shape{frags: map[string]*sel{}}
	g := &shapeGen{budget: budget, sh: sh}
	sh.sels = g.selSet("Query", depth)
	return sh
}

// ---------------------------------------------------------------- reference executor

type collected struct {
	key  string
	sels []*sel // all fields with that response key (for sub-selection merging)
}

// collectFields: GraphQL spec 6.3.2, fragments apply when their condition is
// the object's type (the kit schema has no abstract types).
func (sh *shape) collectFields(typ string, sels []*sel, out *[]*collected) {
	for _, s := range sels {
		switch s.kind {
		case selField:
			k := s.key()
			found := false
			for _, c := range *out {
				if c.key == k {
					c.sels = append(c.sels, s)
					found = true
					break
				}
			}
			if !found {
				*out = append(*out, &collected{key: k, sels: []*sel{s}})
			}
		case selInline:
			if s.cond == "" || s.cond == typ {
				sh.collectFields(typ, s.sub, out)
			}
		case selSpread:
			f := sh.frags[s.frag]
			if f.cond == typ {
				sh.collectFields(typ, f.sub, out)
			}
		}
	}
}

// mergedSubs reports whether a response key was selected more than once with
// sub-selections (the field-merging case).
func (sh *shape) hasMergedObjects(typ string, sels []*sel) bool {
	var cs []*collected
	sh.collectFields(typ, sels, &cs)
	for _, c := range cs {
		if len(c.sels) > 1 {
			return true
		}
		if len(c.sels[0].sub) > 0 && sh.hasMergedObjects("Obj", c.sels[0].sub) {
			return true
		}
	}
	return false
}

func (sh *shape) exec(n *node, sels []*sel, depth int) map[string]interface{} {
	out := map[string]interface{}{}
	var cs []*collected
	sh.collectFields(n.typ, sels, &cs)
	for _, c := range cs {
		f := c.sels[0]
		var sub []*sel
		for _, s := range c.sels {
			sub = append(sub, s.sub...)
		}
		switch f.name {
		case "__typename":
			out[c.key] = n.typ
		case "a":
			out[c.key] = n.a
		case "s":
			out[c.key] = n.s
		case "o":
			if o := n.getO(); o == nil {
				out[c.key] = nil
			} else {
				out[c.key] = sh.exec(o, sub, depth+1)
			}
		case "n":
			out[c.key] = nil
		case "l":
			if l := n.getL(); l == nil {
				out[c.key] = nil
			} else {
				list := make([]interface{}, 0, len(l))
				for _, e := range l {
					if e == nil {
						list = append(list, nil)
					} else {
						list = append(list, sh.exec(e, sub, depth+1))
					}
				}
				out[c.key] = list
			}
		case "ll":
			if n.ll == nil {
				out[c.key] = nil
			} else {
				list := make([]interface{}, 0, len(n.ll))
				for _, e := range n.ll {
					if e == nil {
						list = append(list, nil)
					} else {
						inner := make([]interface{}, 0, len(e))
						inner = append(inner, e...)
						list = append(list, inner)
					}
				}
				out[c.key] = list
			}
		}
	}
	return out
}

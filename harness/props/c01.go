package props

import (
	"verif/harness/sym"
)

// conflict reports whether two selections with one response key are not
// mergeable (different field names): such a request is invalid GraphQL and
// outside C01's quantifier.
func (sh *shape) conflicts(typ string, sels []*sel) bool {
	var cs []*collected
	sh.collectFields(typ, sels, &cs)
	for _, c := range cs {
		for _, s := range c.sels[1:] {
			if s.name != c.sels[0].name {
				return true
			}
		}
		var sub []*sel
		for _, s := range c.sels {
			sub = append(sub, s.sub...)
		}
		if len(sub) > 0 && sh.conflicts("Obj", sub) {
			return true
		}
	}
	return false
}

// C01_select: the "data" of the response equals what GraphQL selection
// semantics prescribe, for every request shape of the bounded grammar, every
// alias collision, every leaf value and null-ness of the data graph.
func C01_select() {
	budget, depth, maxList := 4, 2, 2
	if sym.Thorough() {
		budget, depth, maxList = 5, 2, 2 // (5, 3, 3 did not finish in 45 minutes)
	}
	sh := genShape(budget, depth)
	sym.Assume(!sh.conflicts("Query", sh.sels))
	var log []string
	q := newGraph(&log, maxList)
	root := kitRoot(q)
	doc := sh.render()
	sym.Observe("doc", doc)
	sym.Budget(3_000_000)
	res := root.ResolveString(doc, "", nil)
	sym.Observe("res", res)
	_, hasErr := res["errors"]
	sym.Assert(!hasErr, "valid request has no errors")
	want := sh.exec(q, sh.sels, 0)
	sym.Assert(sym.DeepEqual(res["data"], interface{}(want)), "data is exactly the selection")
}

// C01_opchoice: the operation executed is the one named by the caller, or the
// only one; an ambiguous or unknown name executes no resolver at all.
func C01_opchoice() {
	var log []string
	q := newGraph(&log, 0)
	root := kitRoot(q)
	nops := 1 + sym.Choice("nops", 2)
	n1 := sym.String("op1", 1)
	n2 := sym.String("op2", 1)
	sym.Assume(sym.And(isNameByte(n1[0]), isNameByte(n2[0]), n1 != n2))
	doc := "query " + n1 + "{a}"
	if nops == 2 {
		doc += " query " + n2 + "{s}"
	}
	var opName string
	if sym.Choice("named", 2) == 1 {
		opName = sym.String("opName", 1)
	}
	sym.Observe("doc", doc)
	res := root.ResolveString(doc, opName, nil)
	sym.Observe("res", res)
	data, _ := res["data"].(map[string]interface{})
	switch {
	case opName == n1:
		sym.Assert(sym.DeepEqual(interface{}(data), interface{}(map[string]interface{}{"a": q.a})), "named operation 1 executed")
	case nops == 2 && opName == n2:
		sym.Assert(sym.DeepEqual(interface{}(data), interface{}(map[string]interface{}{"s": q.s})), "named operation 2 executed")
	case nops == 1 && opName == "":
		sym.Assert(sym.DeepEqual(interface{}(data), interface{}(map[string]interface{}{"a": q.a})), "the only operation executed")
	default:
		sym.Assert(len(log) == 0, "ambiguous or unknown name runs no resolver")
		_, hasErr := res["errors"]
		sym.Assert(hasErr, "ambiguous or unknown name is an error")
	}
}

func isNameByte(b byte) bool {
	return sym.Or(sym.And(b >= 'a', b <= 'z'), sym.And(b >= 'A', b <= 'Z'), b == '_')
}

// C01_fragments: named fragments shared between operations and spread more
// than once, defined before or after their uses, nested in each other.
func C01_fragments() {
	f := func(name string, sub ...*sel) *sel { return &sel{kind: selField, name: name, sub: sub} }
	sp := func(name string) *sel { return &sel{kind: selSpread, frag: name} }
	sh := &shape{frags: map[string]*sel{
		"F": {kind: selInline, cond: "Query", sub: []*sel{f("a"), f("s")}},
		"G": {kind: selInline, cond: "Obj", sub: []*sel{f("s"), {kind: selField, name: "a", alias: "z"}}},
		"H": {kind: selInline, cond: "Query", sub: []*sel{f("o", sp("G")), f("__typename")}},
	}}
	ops := [][]*sel{
		{sp("F"), f("o", sp("G"))},
		{f("o", sp("G")), sp("F")},
		{sp("F"), {kind: selField, name: "o", alias: "x", sub: []*sel{sp("G")}}, f("l", sp("G")), sp("H")},
		{sp("H"), sp("F")},
	}
	// document layout: which operations it holds, fragments first or last, their order
	nops := 1 + sym.Choice("operations", 3)
	first := sym.Choice("first operation", len(ops))
	var chosen []int
	for k := 0; k < nops; k++ {
		chosen = append(chosen, (first+k)%len(ops))
	}
	orders := [][]string{{"F", "G", "H"}, {"H", "G", "F"}, {"G", "F", "H"}}
	sh.order = orders[sym.Choice("fragment order", len(orders))]
	frags := ""
	for _, name := range sh.order {
		fr := sh.frags[name]
		frags += " fragment " + name + " on " + fr.cond + renderSels(fr.sub)
	}
	body := ""
	for _, k := range chosen {
		body += " query Q" + string(rune('0'+k)) + renderSels(ops[k])
	}
	doc := body + frags
	if sym.Choice("fragments first", 2) == 1 {
		doc = frags + body
	}
	run := chosen[sym.Choice("run", len(chosen))]
	var log []string
	q := newGraph(&log, 1)
	root := kitRoot(q)
	sym.Observe("doc", doc)
	sym.Budget(6_000_000)
	res := root.ResolveString(doc, "Q"+string(rune('0'+run)), nil)
	sym.Observe("res", res)
	_, hasErr := res["errors"]
	sym.Assert(!hasErr, "valid request has no errors")
	want := sh.exec(q, ops[run], 0)
	sym.Assert(sym.DeepEqual(res["data"], interface{}(want)), "data is exactly the selection")
}

// C01_merge: one response key selected more than once at several levels at
// the same time - directly, through inline fragments and through named
// fragments: the sub-selections are merged at every depth, not only the first
// (the bounded grammar of C01_select cannot afford two levels of repetition).
func C01_merge() {
	sh := &shape{frags: map[string]*sel{}}
	leafA, leafS := sfld("a"), sfld("s")
	switch sym.Choice("shape", 7) {
	case 0:
		sh.sels = []*sel{sfld("o", sfld("o", leafA)), sfld("o", sfld("o", leafS))}
	case 1:
		sh.frags["F"] = &sel{kind: selInline, cond: "Query", sub: []*sel{sfld("o", sfld("o", leafS), sfld("a"))}}
		sh.order = []string{"F"}
		sh.sels = []*sel{sfld("o", sfld("o", leafA)), {kind: selSpread, frag: "F"}}
	case 2:
		sh.sels = []*sel{sfld("l", sfld("o", leafA)), sfld("l", sfld("o", leafS))}
	case 3:
		sh.sels = []*sel{sfld("o", sfld("l", leafA)), on("Query", sfld("o", sfld("l", leafS)))}
	case 4:
		sh.sels = []*sel{sfld("o", sfld("o", sfld("o", leafA))), sfld("o", sfld("o", sfld("o", leafS), sfld("s")))}
	case 5:
		sh.sels = []*sel{sfld("o", sfld("o", leafA), sfld("o", leafS)), sfld("o", sfld("o", sfld("l", sfld("a"))))}
	default:
		sh.frags["G"] = &sel{kind: selInline, cond: "Obj", sub: []*sel{sfld("o", leafS)}}
		sh.order = []string{"G"}
		sh.sels = []*sel{sfld("l", sfld("o", leafA), &sel{kind: selSpread, frag: "G"}), sfld("l", on("Obj", sfld("o", sfld("o", sfld("a")))))}
	}
	var log []string
	q := newGraph(&log, 2)
	root := kitRoot(q)
	doc := sh.render()
	sym.Observe("doc", doc)
	sym.Budget(3_000_000)
	res := root.ResolveString(doc, "", nil)
	sym.Observe("res", res)
	_, hasErr := res["errors"]
	sym.Assert(!hasErr, "valid request has no errors")
	want := sh.exec(q, sh.sels, 0)
	sym.Assert(sym.DeepEqual(res["data"], interface{}(want)), "data is exactly the selection")
}

package props

// C20 - the subscription registry under concurrent publish / subscribe /
// unsubscribe.  Threads run under the engine's scheduler (every interleaving
// of the synchronisation operations within the preemption bound, chosen by
// the same branch mechanism as data), with the happens-before race monitor on
// every memory cell.  Match answers and Send failures are free booleans per
// (subscriber, operation), drawn before the threads start.

import (
	"github.com/uhn/ggql/pkg/ggql"

	"verif/harness/sym"
)

const c20Schema = kitSchema + `
type Subscription { ev(k: Int): Obj }
`

const (
	c20Pub = iota
	c20Unsub
	c20Sub
)

type c20Delivery struct {
	sub   int
	op    int
	stamp int
	val   interface{}
}

type c20Op struct {
	kind       int
	sub        int // subscriber created (c20Sub)
	cnt        int
	failed     bool
	start, end int
	ev         *node
}

type c20State struct {
	nsubs  int
	match  [][]bool // [subscriber][op] (S, drawn up front)
	fail   [][]bool
	asked  [][]int // Match calls per (subscriber, op)
	lastOp []int   // op of the latest Match call per subscriber
	unsubs []int
	log    []c20Delivery
	ops    []*c20Op
	shapes []*shape
	probe  bool
	probed []int
}

type c20Subscriber struct {
	k  int
	st *c20State
}

func (s *c20Subscriber) Match(id string) bool {
	st := s.st
	if st.probe {
		return true
	}
	o := int(id[0] - '0')
	st.asked[s.k][o]++
	st.lastOp[s.k] = o
	return st.match[s.k][o]
}

func (s *c20Subscriber) Send(v interface{}) error {
	st := s.st
	if st.probe {
		st.probed = append(st.probed, s.k)
		return nil
	}
	o := st.lastOp[s.k]
	st.log = append(st.log, c20Delivery{sub: s.k, op: o, stamp: sym.Stamp(), val: v})
	if st.fail[s.k][o] {
		return &injected{"send failed"}
	}
	return nil
}

func (s *c20Subscriber) Unsubscribe() { s.st.unsubs[s.k]++ }

type c20Root struct {
	q  *node
	st *c20State
}

func (r *c20Root) Resolve(field *ggql.Field, args map[string]interface{}) (interface{}, error) {
	if field.Name == "subscription" {
		return &c20SubRoot{r.st}, nil
	}
	return r.q.Resolve(field, args)
}

type c20SubRoot struct{ st *c20State }

func (r *c20SubRoot) Resolve(field *ggql.Field, args map[string]interface{}) (interface{}, error) {
	k, _ := args["k"].(int32)
	return ggql.NewSubscription(&c20Subscriber{k: int(k), st: r.st}, field, args), nil
}

func c20Doc(k, j int) (*shape, string) {
	sh, _ := c19Selection(j)
	doc := "subscription{ev(k:" + string(rune('0'+k)) + ")" + renderSels(sh.sels) + "}"
	for _, name := range sh.order {
		f := sh.frags[name]
		doc += " fragment " + name + " on " + f.cond + renderSels(f.sub)
	}
	return sh, doc
}

// c20Run: nInit subscribers registered sequentially, then `threads` threads
// with `perThread` operations each (E kinds), then the oracle.
func c20Run(nInit, threads, perThread int) {
	nOps := threads * perThread
	maxSubs := nInit + nOps
	st := &c20State{}
	for k := 0; k < maxSubs; k++ {
		st.match = append(st.match, make([]bool, nOps))
		st.fail = append(st.fail, make([]bool, nOps))
		st.asked = append(st.asked, make([]int, nOps))
	}
	st.lastOp = make([]int, maxSubs)
	st.unsubs = make([]int, maxSubs)
	st.shapes = make([]*shape, maxSubs)
	q := &node{id: "q", typ: "Query", a: int32(1), s: "q"}
	root := ggql.NewRoot(&c20Root{q: q, st: st})
	if err := root.ParseString(c20Schema); err != nil {
		panic("harness schema rejected: " + err.Error())
	}
	for k := 0; k < nInit; k++ {
		sh, doc := c20Doc(k, k%2)
		st.shapes[k] = sh
		res := root.ResolveString(doc, "", nil)
		sym.Assert(res["errors"] == nil, "subscription request accepted")
	}
	st.nsubs = nInit
	// the operations and their behaviours
	for o := 0; o < nOps; o++ {
		op := &c20Op{kind: sym.Choice("op kind", 3)}
		switch op.kind {
		case c20Pub:
			op.ev = c19Event("e" + string(rune('0'+o)))
		case c20Sub:
			op.sub = st.nsubs
			st.nsubs++
		}
		st.ops = append(st.ops, op)
	}
	for k := 0; k < st.nsubs; k++ {
		for o := 0; o < nOps; o++ {
			if st.ops[o].kind == c20Sub {
				continue
			}
			st.match[k][o] = sym.Bool("match")
			if st.ops[o].kind == c20Pub {
				st.fail[k][o] = sym.Bool("fail")
			}
		}
	}
	docs := make([]string, nOps)
	for o, op := range st.ops {
		if op.kind == c20Sub {
			st.shapes[op.sub], docs[o] = c20Doc(op.sub, 2+o%2)
		}
	}
	sym.Budget(40_000_000)
	for t := 0; t < threads; t++ {
		t := t
		sym.Go(func() {
			for n := 0; n < perThread; n++ {
				o := t*perThread + n
				op := st.ops[o]
				id := string(rune('0' + o))
				op.start = sym.Stamp()
				switch op.kind {
				case c20Pub:
					cnt, err := root.AddEvent(id, op.ev)
					op.cnt, op.failed = cnt, err != nil
				case c20Unsub:
					op.cnt = root.Unsubscribe(id)
				default:
					res := root.ResolveString(docs[o], "", nil)
					op.failed = res["errors"] != nil
				}
				op.end = sym.Stamp()
			}
		})
	}
	sym.Wait()
	c20Oracle(root, st, nInit)
}

func c20Oracle(root *ggql.Root, st *c20State, nInit int) {
	nOps := len(st.ops)
	// hit(k,o): operation o consulted subscriber k and k matched
	hit := func(k, o int) bool { return sym.And(st.asked[k][o] > 0, st.match[k][o]) }
	for k := 0; k < st.nsubs; k++ {
		for o := 0; o < nOps; o++ {
			sym.Assert(st.asked[k][o] <= 1, "an operation consults a subscriber at most once")
		}
	}
	// deliveries: at most one per (subscriber, publish); exactly the matched ones; own selection
	for k := 0; k < st.nsubs; k++ {
		for o, op := range st.ops {
			n := 0
			for _, d := range st.log {
				if d.sub == k && d.op == o {
					n++
					exp := st.shapes[k].exec(op.ev, st.shapes[k].sels, 0)
					sym.Assert(sym.DeepEqual(d.val, interface{}(exp)), "message is the subscriber's own selection applied to the event")
				}
			}
			sym.Assert(n <= 1, "a publish is delivered at most once to a subscriber")
			if op.kind == c20Pub {
				sym.Assert((n == 1) == hit(k, o), "a publish is delivered exactly to the subscribers it matched")
			} else {
				sym.Assert(n == 0, "only publishes deliver")
			}
		}
	}
	// returned counts and errors
	for o, op := range st.ops {
		if op.kind == c20Sub {
			sym.Assert(!op.failed, "subscription request accepted")
			continue
		}
		n := 0
		anyFail := false
		for k := 0; k < st.nsubs; k++ {
			if hit(k, o) {
				n++
				if st.fail[k][o] {
					anyFail = true
				}
			}
		}
		sym.Assert(op.cnt == n, "the operation reports the number of subscribers it matched")
		if op.kind == c20Pub {
			sym.Assert(op.failed == anyFail, "publish reports an error exactly when a delivery failed")
		}
	}
	// clean-up: at most once; exactly once for a subscriber that an
	// unsubscribe matched or whose delivery failed, never otherwise
	for k := 0; k < st.nsubs; k++ {
		sym.Assert(st.unsubs[k] <= 1, "clean-up is called at most once")
		removed := false
		for o, op := range st.ops {
			switch op.kind {
			case c20Unsub:
				removed = sym.Or(removed, hit(k, o))
			case c20Pub:
				removed = sym.Or(removed, sym.And(hit(k, o), st.fail[k][o]))
			}
		}
		sym.Assert((st.unsubs[k] == 1) == removed, "clean-up is called exactly for the removed subscribers")
	}
	// nothing is delivered to a subscriber after the call that removed it returned
	for k := 0; k < st.nsubs; k++ {
		for o, op := range st.ops {
			removes := false
			switch op.kind {
			case c20Unsub:
				removes = hit(k, o)
			case c20Pub:
				removes = sym.And(hit(k, o), st.fail[k][o])
			}
			for _, d := range st.log {
				if d.sub == k {
					sym.Assert(!sym.And(removes, d.stamp > op.end), "no delivery after the call that removed the subscriber returned")
				}
			}
		}
	}
	// a publish that starts after a subscription request returned consults that subscriber
	for s, sop := range st.ops {
		_ = s
		if sop.kind != c20Sub {
			continue
		}
		for o, op := range st.ops {
			if op.kind != c20Pub || op.start <= sop.end {
				continue
			}
			// unless something removed it meanwhile
			gone := false
			for r, rop := range st.ops {
				if r != o && rop.start < op.end {
					switch rop.kind {
					case c20Unsub:
						gone = sym.Or(gone, hit(sop.sub, r))
					case c20Pub:
						gone = sym.Or(gone, sym.And(hit(sop.sub, r), st.fail[sop.sub][r]))
					}
				}
			}
			sym.Assert(sym.Or(gone, st.asked[sop.sub][o] == 1), "a publish after a subscription returned reaches that subscriber")
		}
	}
	// the registry afterwards: exactly the subscribers not removed, the initial ones in order
	st.probe = true
	_, _ = root.AddEvent("p", c19Event("probe"))
	for k := 0; k < st.nsubs; k++ {
		n := 0
		for _, p := range st.probed {
			if p == k {
				n++
			}
		}
		sym.Assert(n <= 1, "a subscriber is registered at most once")
		sym.Assert((n == 1) == (st.unsubs[k] == 0), "the registry holds exactly the subscribers that were not removed")
	}
	last := -1
	for _, p := range st.probed {
		if p < nInit {
			sym.Assert(p > last, "registration order is preserved")
			last = p
		}
	}
}

// C20_pairs: two threads, one operation each, every kind pair, every
// match/fail pattern, every interleaving of the registry's critical sections.
func C20_pairs() {
	c20Run(2, 2, 1)
}

// C20_deep (thorough only does the larger shapes): three threads with one
// operation each, or two threads with two operations each.
func C20_deep() {
	if !sym.Thorough() {
		c20Run(1, 2, 1)
		return
	}
	// (with no bound on preemptions these two shapes did not finish in 8 CPU
	// hours; 3 preemptions per schedule is the stated bound)
	sym.Preemptions(3)
	if sym.Choice("shape", 2) == 0 {
		c20Run(1, 3, 1)
	} else {
		c20Run(1, 2, 2)
	}
}

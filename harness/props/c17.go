package props

// C17 - introspection reports the loaded schema faithfully.  A schema model
// in the harness (types, fields, arguments, wrappers, deprecations, enum
// values, input fields, members, interfaces, a directive) with S names,
// descriptions and deprecation reasons is rendered to SDL, loaded, and
// queried with a full introspection request under every way the application
// can serve its own data; the expected answer is computed from the model.

import (
	"github.com/uhn/ggql/pkg/ggql"

	"verif/harness/sym"
)

type mRef struct {
	name string
	wrap int // 0: T  1: T!  2: [T]  3: [T!]!  4: [[T]]
}

func (r mRef) text() string {
	switch r.wrap {
	case 1:
		return r.name + "!"
	case 2:
		return "[" + r.name + "]"
	case 3:
		return "[" + r.name + "!]!"
	case 4:
		return "[[" + r.name + "]]"
	}
	return r.name
}

type mArg struct {
	name, desc string
	typ        mRef
	def        string // literal text, "" = none
}

type mField struct {
	name, desc string
	typ        mRef
	args       []mArg
	deprecated bool
	reason     string // "" = none given
}

type mValue struct {
	name, desc string
	deprecated bool
	reason     string
}

type mType struct {
	kind       string // OBJECT INTERFACE UNION ENUM INPUT_OBJECT SCALAR
	name, desc string
	fields     []mField
	values     []mValue
	members    []string
	interfaces []string
	inputs     []mArg
}

func descText(d string) string {
	if d == "" {
		return ""
	}
	return `"` + d + `" `
}

func depText(dep bool, reason string) string {
	if !dep {
		return ""
	}
	if reason == "" {
		return " @deprecated"
	}
	return ` @deprecated(reason: "` + reason + `")`
}

func argsText(args []mArg) string {
	if len(args) == 0 {
		return ""
	}
	out := "("
	for k, a := range args {
		if k > 0 {
			out += " "
		}
		out += descText(a.desc) + a.name + ": " + a.typ.text()
		if a.def != "" {
			out += " = " + a.def
		}
	}
	return out + ")"
}

func (t *mType) sdl() string {
	out := descText(t.desc)
	switch t.kind {
	case "OBJECT", "INTERFACE":
		if t.kind == "OBJECT" {
			out += "type " + t.name
			for k, i := range t.interfaces {
				if k == 0 {
					out += " implements " + i
				} else {
					out += " & " + i
				}
			}
		} else {
			out += "interface " + t.name
		}
		out += " {"
		for _, f := range t.fields {
			out += " " + descText(f.desc) + f.name + argsText(f.args) + ": " + f.typ.text() + depText(f.deprecated, f.reason)
		}
		out += " }"
	case "UNION":
		out += "union " + t.name + " ="
		for k, m := range t.members {
			if k > 0 {
				out += " |"
			}
			out += " " + m
		}
	case "ENUM":
		out += "enum " + t.name + " {"
		for _, v := range t.values {
			out += " " + descText(v.desc) + v.name + depText(v.deprecated, v.reason)
		}
		out += " }"
	case "INPUT_OBJECT":
		out += "input " + t.name + " {"
		for _, f := range t.inputs {
			out += " " + descText(f.desc) + f.name + ": " + f.typ.text()
			if f.def != "" {
				out += " = " + f.def
			}
		}
		out += " }"
	case "SCALAR":
		out += "scalar " + t.name
	}
	return out + "\n"
}

// the expected introspection of a type reference: kind / name / ofType chain
func (m *mModel) refTree(r mRef) interface{} {
	named := func() map[string]interface{} {
		return map[string]interface{}{"kind": m.kindOf(r.name), "name": r.name, "ofType": nil}
	}
	wrapOf := func(kind string, of interface{}) map[string]interface{} {
		return map[string]interface{}{"kind": kind, "name": nil, "ofType": of}
	}
	switch r.wrap {
	case 1:
		return wrapOf("NON_NULL", named())
	case 2:
		return wrapOf("LIST", named())
	case 3:
		return wrapOf("NON_NULL", wrapOf("LIST", wrapOf("NON_NULL", named())))
	case 4:
		return wrapOf("LIST", wrapOf("LIST", named()))
	}
	return named()
}

type mModel struct {
	types    []*mType
	mutation bool
}

func (m *mModel) kindOf(name string) string {
	for _, t := range m.types {
		if t.name == name {
			return t.kind
		}
	}
	return "SCALAR" // built in
}

func (m *mModel) argTree(a mArg) interface{} {
	return map[string]interface{}{"name": a.name, "description": a.desc, "type": m.refTree(a.typ)}
}

const defaultReason = "No longer supported"

func reasonOf(dep bool, reason string) interface{} {
	if !dep {
		return nil
	}
	if reason == "" {
		return defaultReason
	}
	return reason
}

// typeTree: the expected answer for one type.
func (m *mModel) typeTree(t *mType, includeDeprecated bool) map[string]interface{} {
	out := map[string]interface{}{"kind": t.kind, "name": t.name, "description": t.desc,
		"fields": nil, "interfaces": nil, "possibleTypes": nil, "enumValues": nil, "inputFields": nil}
	names := func(l []string) interface{} {
		o := []interface{}{}
		for _, n := range l {
			o = append(o, map[string]interface{}{"name": n})
		}
		return o
	}
	switch t.kind {
	case "OBJECT", "INTERFACE":
		fs := []interface{}{}
		for _, f := range t.fields {
			if f.deprecated && !includeDeprecated {
				continue
			}
			args := []interface{}{}
			for _, a := range f.args {
				args = append(args, m.argTree(a))
			}
			fs = append(fs, map[string]interface{}{"name": f.name, "description": f.desc, "args": args, "type": m.refTree(f.typ),
				"isDeprecated": f.deprecated, "deprecationReason": reasonOf(f.deprecated, f.reason)})
		}
		out["fields"] = fs
		if t.kind == "OBJECT" {
			out["interfaces"] = names(t.interfaces)
		} else {
			var impl []string
			for _, o := range m.types {
				for _, i := range o.interfaces {
					if i == t.name {
						impl = append(impl, o.name)
					}
				}
			}
			out["possibleTypes"] = names(impl)
		}
	case "UNION":
		out["possibleTypes"] = names(t.members)
	case "ENUM":
		vs := []interface{}{}
		for _, v := range t.values {
			if v.deprecated && !includeDeprecated {
				continue
			}
			vs = append(vs, map[string]interface{}{"name": v.name, "description": v.desc,
				"isDeprecated": v.deprecated, "deprecationReason": reasonOf(v.deprecated, v.reason)})
		}
		out["enumValues"] = vs
	case "INPUT_OBJECT":
		fs := []interface{}{}
		for _, f := range t.inputs {
			fs = append(fs, m.argTree(f))
		}
		out["inputFields"] = fs
	}
	return out
}

func c17Query(includeDeprecated bool) string {
	inc := "false"
	if includeDeprecated {
		inc = "true"
	}
	tref := "{kind name ofType{kind name ofType{kind name ofType{kind name ofType{name}}}}}"
	typ := "{kind name description fields(includeDeprecated:" + inc + "){name description args{name description type" + tref + "} type" + tref + " isDeprecated deprecationReason}" +
		" interfaces{name} possibleTypes{name} enumValues(includeDeprecated:" + inc + "){name description isDeprecated deprecationReason} inputFields{name description type" + tref + "}}"
	return "{__schema{queryType{name} mutationType{name} subscriptionType{name} types" + typ + " directives{name locations args{name}}}" +
		" q:__type(name:\"Query\")" + typ + " e:__type(name:\"En\")" + typ + " i:__type(name:\"I\")" + typ + " n:__type(name:\"In\")" + typ + " none:__type(name:\"Nope\"){name}}"
}

// normTree makes the comparison indifferent to what the statement leaves
// open: a missing description may be "" or null; the innermost ofType level
// of the query asks for name only.
func normTree(v interface{}) interface{} {
	switch tv := v.(type) {
	case map[string]interface{}:
		out := map[string]interface{}{}
		kind, _ := tv["kind"].(string)
		for k, e := range tv {
			if k == "description" {
				if s, ok := e.(string); ok && s == "" {
					e = nil
				}
			}
			if k == "name" && (kind == "LIST" || kind == "NON_NULL") {
				e = nil // the statement asks for wrappers unrolled through ofType, not for their name
			}
			if l, isList := e.([]interface{}); isList && (k == "possibleTypes" || k == "interfaces") {
				e = sortByName(l) // sets: their order carries no meaning
			}
			out[k] = normTree(e)
		}
		return out
	case []interface{}:
		out := make([]interface{}, 0, len(tv))
		for _, e := range tv {
			out = append(out, normTree(e))
		}
		return out
	}
	return v
}

func sortByName(l []interface{}) []interface{} {
	out := append([]interface{}{}, l...)
	name := func(v interface{}) string {
		m, _ := v.(map[string]interface{})
		s, _ := m["name"].(string)
		return s
	}
	for i := 1; i < len(out); i++ {
		for j := i; j > 0 && name(out[j]) < name(out[j-1]); j-- {
			out[j], out[j-1] = out[j-1], out[j]
		}
	}
	return out
}

// trimRef cuts an expected reference tree to the depth the query selects
// (the fifth level has name only).
func trimRef(v interface{}, depth int) interface{} {
	m, ok := v.(map[string]interface{})
	if !ok {
		return v
	}
	if depth == 4 {
		return map[string]interface{}{"name": m["name"]}
	}
	return map[string]interface{}{"kind": m["kind"], "name": m["name"], "ofType": trimRef(m["ofType"], depth+1)}
}

func trimRefs(v interface{}) interface{} {
	switch tv := v.(type) {
	case map[string]interface{}:
		out := map[string]interface{}{}
		for k, e := range tv {
			if k == "type" {
				out[k] = trimRef(e, 0)
			} else {
				out[k] = trimRefs(e)
			}
		}
		return out
	case []interface{}:
		out := make([]interface{}, 0, len(tv))
		for _, e := range tv {
			out = append(out, trimRefs(e))
		}
		return out
	}
	return v
}

// printable: description / reason bytes (no quote, no backslash, no blanks:
// the scanner's normalisation of descriptions is C15's subject)
func printable(s string) bool {
	ok := true
	for i := 0; i < len(s); i++ {
		ok = sym.And(ok, s[i] > 0x20, s[i] < 0x7f, s[i] != '"', s[i] != '\\')
	}
	return ok
}

func symPrintable(name string, n int) string {
	s := sym.String(name, n)
	sym.Assume(printable(s))
	return s
}

type c17Res struct{}

func (r *c17Res) Resolve(field *ggql.Field, args map[string]interface{}) (interface{}, error) {
	return r, nil
}

type c17Any struct{}

func (c17Any) Resolve(obj interface{}, field *ggql.Field, args map[string]interface{}) (interface{}, error) {
	return map[string]interface{}{}, nil
}
func (c17Any) Len(list interface{}) int                         { return 0 }
func (c17Any) Nth(list interface{}, i int) (interface{}, error) { return nil, nil }

var debugC17 func(got, want interface{})

// C17_introspect
func C17_introspect() {
	// S parts of the model
	fname := nameToken("field name")
	sym.Assume(sym.And(fname != "g", fname != "i", fname != "u", fname != "x", fname != "y"))
	aname := nameToken("arg name")
	sym.Assume(aname != "b")
	vname := nameToken("value name")
	sym.Assume(sym.And(vname != "W", vname != "t", vname != "f", vname != "n")) // (true/false/null are longer, kept simple)
	dlen := 1 + sym.Choice("desc len", 2)
	desc := symPrintable("desc", dlen)
	dep := sym.Bool("deprecated")
	reason := ""
	if sym.Choice("reason given", 2) == 1 {
		reason = symPrintable("reason", 1)
	}
	wrap := sym.Choice("wrapper", 5)
	include := sym.Bool("includeDeprecated")

	m := &mModel{mutation: sym.Choice("mutation type", 2) == 1}
	m.types = []*mType{
		{kind: "OBJECT", name: "Query", desc: desc, fields: []mField{
			{name: fname, desc: desc, typ: mRef{"Obj", wrap}, args: []mArg{{name: aname, desc: desc, typ: mRef{"Int", 0}, def: "3"}, {name: "b", typ: mRef{"In", 3}}},
				deprecated: dep, reason: reason},
			{name: "g", typ: mRef{"En", 0}}, {name: "i", typ: mRef{"I", 0}}, {name: "u", typ: mRef{"U", 2}}}},
		{kind: "OBJECT", name: "Obj", interfaces: []string{"I"}, fields: []mField{{name: "x", typ: mRef{"Int", 0}}, {name: "y", desc: desc, typ: mRef{"String", 1}, deprecated: !dep, reason: "old"}}},
		{kind: "INTERFACE", name: "I", desc: desc, fields: []mField{{name: "x", typ: mRef{"Int", 0}}}},
		{kind: "UNION", name: "U", members: []string{"Obj", "Query"}},
		{kind: "ENUM", name: "En", values: []mValue{{name: vname, desc: desc, deprecated: dep, reason: reason}, {name: "W"}}},
		{kind: "INPUT_OBJECT", name: "In", desc: desc, inputs: []mArg{{name: "p", desc: desc, typ: mRef{"Int", 1}, def: "1"}, {name: "q", typ: mRef{"String", wrap}}}},
		{kind: "SCALAR", name: "Sc", desc: desc},
	}
	if m.mutation {
		m.types = append(m.types, &mType{kind: "OBJECT", name: "Mutation", fields: []mField{{name: "m", typ: mRef{"Sc", 0}}}})
	}
	src := ""
	for _, t := range m.types {
		src += t.sdl()
	}
	src += `"` + desc + `" directive @dd("` + desc + `" n: Int) on FIELD_DEFINITION | ENUM_VALUE` + "\n"
	sym.Observe("src", src)

	var root *ggql.Root
	config := sym.Choice("application strategy", 3)
	switch config {
	case 0:
		root = ggql.NewRoot(&c17Res{})
	case 1:
		root = ggql.NewRoot(&struct{ Query *struct{ G string } }{Query: &struct{ G string }{}})
	default:
		root = ggql.NewRoot(map[string]interface{}{})
		root.AnyResolver = c17Any{}
	}
	sym.Budget(60_000_000)
	sym.Assert(root.ParseString(src) == nil, "model schema accepted")
	lateLoad := sym.Choice("late load", 2) == 1
	if lateLoad {
		// a request, then a second load adding an implementer of I and a union member
		_ = root.ResolveString(c17Query(include), "", nil)
		late := &mType{kind: "OBJECT", name: "Late", interfaces: []string{"I"}, fields: []mField{{name: "x", typ: mRef{"Int", 0}}, {name: "l", typ: mRef{"En", 3}}}}
		sym.Assert(root.ParseString(late.sdl()+"extend union U = Late\n") == nil, "later load accepted")
		m.types = append(m.types, late)
		for _, t := range m.types {
			if t.name == "U" {
				t.members = append(t.members, "Late")
			}
		}
	}
	sdlBefore := root.SDL(true, true)
	if !lateLoad && sym.Choice("other request first", 2) == 1 {
		// an earlier introspection request with the other setting must not matter
		_ = root.ResolveString(c17Query(!include), "", nil)
	}
	res := root.ResolveString(c17Query(include), "", nil)
	sym.Assert(root.SDL(true, true) == sdlBefore, "introspection leaves the schema as it is")
	sym.Assert(res["errors"] == nil, "introspection request resolves without error")
	data, _ := res["data"].(map[string]interface{})
	sym.Assert(data != nil, "data present")
	schema, _ := data["__schema"].(map[string]interface{})
	sym.Assert(schema != nil, "__schema present")
	if sym.Known("C17-default-deprecation-reason-quoted", dep && reason == "") {
		return
	}

	// root operation types
	sym.Assert(sym.DeepEqual(schema["queryType"], interface{}(map[string]interface{}{"name": "Query"})), "queryType")
	if m.mutation {
		sym.Assert(sym.DeepEqual(schema["mutationType"], interface{}(map[string]interface{}{"name": "Mutation"})), "mutationType")
	} else {
		sym.Assert(schema["mutationType"] == nil, "no mutationType")
	}
	sym.Assert(schema["subscriptionType"] == nil, "no subscriptionType")

	// every model type is listed once with the expected description of itself
	types, _ := schema["types"].([]interface{})
	for _, t := range m.types {
		want := normTree(trimRefs(m.typeTree(t, include)))
		n := 0
		for _, e := range types {
			em, _ := e.(map[string]interface{})
			if name, _ := em["name"].(string); name == t.name {
				n++
				if debugC17 != nil {
					debugC17(normTree(e), want)
				}
				sym.Assert(sym.DeepEqual(normTree(e), want), "type described faithfully")
			}
		}
		sym.Assert(n == 1, "every type listed exactly once")
	}
	// nothing listed that the schema does not have: model types and built-in ones only
	for _, e := range types {
		em, _ := e.(map[string]interface{})
		name, _ := em["name"].(string)
		known := len(name) > 2 && name[:2] == "__"
		for _, t := range m.types {
			known = known || t.name == name
		}
		for _, b := range []string{"Int", "Float", "String", "Boolean", "ID", "Int64", "Float64", "Time"} {
			known = known || b == name
		}
		sym.Assert(known, "no type listed that the schema does not have")
	}
	// __type(name:) agrees, unknown names are null
	for alias, tn := range map[string]string{"q": "Query", "e": "En", "i": "I", "n": "In"} {
		for _, t := range m.types {
			if t.name == tn {
				sym.Assert(sym.DeepEqual(normTree(data[alias]), normTree(trimRefs(m.typeTree(t, include)))), "__type(name:) describes the type faithfully")
			}
		}
	}
	sym.Assert(data["none"] == nil, "__type of an unknown name is null")
	// the directive
	dirs, _ := schema["directives"].([]interface{})
	found := 0
	for _, e := range dirs {
		em, _ := e.(map[string]interface{})
		if name, _ := em["name"].(string); name == "dd" {
			found++
			sym.Assert(sym.DeepEqual(em["locations"], interface{}([]interface{}{"FIELD_DEFINITION", "ENUM_VALUE"})), "directive locations")
			sym.Assert(sym.DeepEqual(em["args"], interface{}([]interface{}{map[string]interface{}{"name": "n"}})), "directive arguments")
		}
	}
	sym.Assert(found == 1, "directive listed once")
}

// C17_roots: the root operation types introspection reports are the ones the
// schema binds - through the implied schema (types with the default names),
// an explicit schema block (any names, operations left out stay unbound even
// when a type with the default name exists) or a schema block completed by
// extend schema.
func C17_roots() {
	explicit := sym.Choice("schema block", 3) // 0: implied; 1: schema block; 2: schema block, mutation bound by extend schema
	qName := "Query"
	if explicit != 0 && sym.Choice("query type name", 2) == 1 {
		qName = "Q" + nameToken("query type name byte") // S: any two-byte name (the type table is ordered by name)
	}
	hasM := sym.Choice("type named Mutation", 2) == 1
	hasS := sym.Choice("type named Subscription", 2) == 1
	mBound, sBound := "", ""
	if explicit == 0 {
		if hasM {
			mBound = "Mutation"
		}
		if hasS {
			sBound = "Subscription"
		}
	} else {
		switch sym.Choice("mutation binding", 3) {
		case 1:
			mBound = "Mut"
		case 2:
			if hasM {
				mBound = "Mutation"
			}
		}
		switch sym.Choice("subscription binding", 3) {
		case 1:
			sBound = "Sub"
		case 2:
			if hasS {
				sBound = "Subscription"
			}
		}
	}
	src := "type " + qName + " { a: Int m: Mut s: Sub"
	if hasM {
		src += " dm: Mutation"
	}
	if hasS {
		src += " ds: Subscription"
	}
	src += " }\ntype Mut { x: Int }\ntype Sub { y: Int }\n"
	if hasM {
		src += "type Mutation { x: Int }\n"
	}
	if hasS {
		src += "type Subscription { y: Int }\n"
	}
	if explicit != 0 {
		src += "schema { query: " + qName
		if mBound != "" && explicit == 1 {
			src += " mutation: " + mBound
		}
		if sBound != "" {
			src += " subscription: " + sBound
		}
		src += " }\n"
		if mBound != "" && explicit == 2 {
			src += "extend schema { mutation: " + mBound + " }\n"
		}
	}
	sym.Observe("src", src)
	root := ggql.NewRoot(&c17Res{})
	sym.Assert(root.ParseString(src) == nil, "model schema accepted")
	res := root.ResolveString("{__schema{queryType{name} mutationType{name} subscriptionType{name}}}", "", nil)
	sym.Assert(res["errors"] == nil, "introspection request resolves without error")
	data, _ := res["data"].(map[string]interface{})
	schema, _ := data["__schema"].(map[string]interface{})
	sym.Assert(schema != nil, "__schema present")
	want := func(name string) interface{} {
		if name == "" {
			return nil
		}
		return map[string]interface{}{"name": name}
	}
	sym.Assert(sym.DeepEqual(schema["queryType"], want(qName)), "queryType")
	sym.Assert(sym.DeepEqual(schema["mutationType"], want(mBound)), "mutationType is the bound type")
	sym.Assert(sym.DeepEqual(schema["subscriptionType"], want(sBound)), "subscriptionType is the bound type")
}

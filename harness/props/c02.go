package props

// C02 - interface, root (any) and reflection resolvers give the same
// response.  One neutral data graph (the kit's node graph: S leaves, S
// null-ness, E list variants) is instantiated per strategy - Resolver nodes,
// maps and slices behind an AnyResolver, Go structs and methods found by
// reflection (auto-discovered or registered) - and as mixed graphs where E
// chooses the representation of every node; the same request (E shape from
// the kit grammar, with aliases, fragments, variables and string / boolean
// arguments) is resolved against each and the responses compared by one
// solver term.

import (
	"github.com/uhn/ggql/pkg/ggql"

	"verif/harness/sym"
)

const c02Schema = `
type Query { a: Int s: String o: Obj l: [Obj] ll: [[Int]] n: Obj g(x: String, b: Boolean): String }
type Obj { a: Int s: String o: Obj l: [Obj] g(x: String, b: Boolean): String }
`

const (
	repResolver = iota
	repMap
	repStruct
)

// C02Obj is the reflection representation of a node (fields found by
// capitalised name, g found as a method).
type C02Obj struct {
	A  interface{}
	S  interface{}
	O  interface{}
	L  interface{}
	Ll interface{}
	N  interface{}
	id string
}

func (o *C02Obj) G(x string, b bool) string { return c02G(x, b) }

func c02G(x string, b bool) string {
	if b {
		return x + "!"
	}
	return x + "."
}

// c02Res is the Resolver representation.
type c02Res struct {
	a, s, o, l, ll interface{}
	id             string
	log            *[]string
}

func (r *c02Res) Resolve(field *ggql.Field, args map[string]interface{}) (interface{}, error) {
	*r.log = append(*r.log, "res:"+r.id+"."+field.Name)
	switch field.Name {
	case "query":
		return r, nil
	case "a":
		return r.a, nil
	case "s":
		return r.s, nil
	case "o":
		return r.o, nil
	case "l":
		return r.l, nil
	case "ll":
		return r.ll, nil
	case "g":
		x, _ := args["x"].(string)
		b, _ := args["b"].(bool)
		return c02G(x, b), nil
	}
	return nil, nil
}

// c02List is a ListResolver representation of a list.
type c02List struct{ items []interface{} }

func (l *c02List) Len() int              { return len(l.items) }
func (l *c02List) Nth(i int) interface{} { return l.items[i] }

// c02Any is the root (any) resolver: maps by key, slices by index, and - in
// mixed graphs where it is installed next to structs - the struct's fields.
type c02Any struct{ log *[]string }

func (r *c02Any) Resolve(obj interface{}, field *ggql.Field, args map[string]interface{}) (interface{}, error) {
	switch o := obj.(type) {
	case map[string]interface{}:
		id, _ := o["id"].(string)
		*r.log = append(*r.log, "any:"+id+"."+field.Name)
		if field.Name == "g" {
			x, _ := args["x"].(string)
			b, _ := args["b"].(bool)
			return c02G(x, b), nil
		}
		return o[field.Name], nil
	case *C02Obj:
		*r.log = append(*r.log, "any:"+o.id+"."+field.Name)
		switch field.Name {
		case "a":
			return o.A, nil
		case "s":
			return o.S, nil
		case "o":
			return o.O, nil
		case "l":
			return o.L, nil
		case "ll":
			return o.Ll, nil
		case "g":
			x, _ := args["x"].(string)
			b, _ := args["b"].(bool)
			return c02G(x, b), nil
		}
	}
	return nil, nil
}

func (r *c02Any) Len(list interface{}) int {
	switch l := list.(type) {
	case []interface{}:
		return len(l)
	case []*C02Obj:
		return len(l)
	case []C02Obj:
		return len(l)
	}
	return 0
}

func (r *c02Any) Nth(list interface{}, i int) (interface{}, error) {
	switch l := list.(type) {
	case []interface{}:
		return l[i], nil
	case []*C02Obj:
		return l[i], nil
	case []C02Obj:
		return &l[i], nil
	}
	return nil, nil
}

// c02Builder turns the neutral graph into representations.
type c02Builder struct {
	rep      func(id string) int
	listKind int // 0: []interface{}  1: ListResolver / typed slice of pointers  2: typed slice of struct values (reflection)
	log      *[]string
	memo     map[*node]interface{}
}

func (b *c02Builder) build(n *node) interface{} {
	if n == nil {
		return nil
	}
	if r, ok := b.memo[n]; ok {
		return r
	}
	var ll interface{}
	if n.ll != nil {
		out := make([]interface{}, len(n.ll))
		for i, e := range n.ll {
			if e != nil {
				out[i] = append([]interface{}{}, e...)
			}
		}
		ll = out
	}
	switch b.rep(n.id) {
	case repResolver:
		r := &c02Res{a: n.a, s: n.s, ll: ll, id: n.id, log: b.log}
		b.memo[n] = r
		r.o = b.build(n.getO())
		r.l = b.list(n, repResolver)
		return r
	case repMap:
		m := map[string]interface{}{"a": n.a, "s": n.s, "ll": ll, "id": n.id}
		b.memo[n] = m
		m["o"] = b.build(n.getO())
		m["l"] = b.list(n, repMap)
		return m
	default:
		o := &C02Obj{A: n.a, S: n.s, Ll: ll, id: n.id}
		b.memo[n] = o
		o.O = b.build(n.getO())
		o.L = b.list(n, repStruct)
		return o
	}
}

func (b *c02Builder) list(n *node, rep int) interface{} {
	l := n.getL()
	if l == nil {
		return nil
	}
	items := make([]interface{}, len(l))
	allStruct := true
	for i, e := range l {
		items[i] = b.build(e)
		if _, ok := items[i].(*C02Obj); !ok && items[i] != nil {
			allStruct = false
		}
	}
	if b.listKind == 1 {
		// the list representations that can hold a typed nil pointer do: a
		// null element of the neutral graph is a nil *C02Obj / nil *c02Res there
		switch {
		case rep == repResolver:
			for i := range items {
				if items[i] == nil {
					items[i] = (*c02Res)(nil)
				}
			}
			return &c02List{items: items}
		case rep == repStruct && allStruct:
			typed := make([]*C02Obj, len(items))
			for i, e := range items {
				if e != nil {
					typed[i] = e.(*C02Obj)
				}
			}
			return typed
		}
	}
	if b.listKind == 2 && rep == repStruct && allStruct {
		// a slice of struct VALUES: the same GraphQL type is then reached through
		// C02Obj here and through *C02Obj at the object fields
		vals := make([]C02Obj, 0, len(items))
		for _, e := range items {
			if e == nil {
				return items // (a value slice cannot hold a null)
			}
			vals = append(vals, *e.(*C02Obj))
		}
		return vals
	}
	return items
}

// c02Root builds a root over the graph in the given configuration.
//
//	config 0: Resolver nodes only            3: mixed Resolver + struct (E per node)
//	config 1: maps behind an AnyResolver     4: mixed Resolver + map + struct behind an AnyResolver (E per node)
//	config 2: structs, reflection            5: structs with RegisterType / RegisterField
func c02Root(config int, q *node, listKind int, log *[]string) *ggql.Root {
	b := &c02Builder{listKind: listKind, log: log, memo: map[*node]interface{}{}}
	switch config {
	case 0:
		b.rep = func(string) int { return repResolver }
	case 1:
		b.rep = func(string) int { return repMap }
	case 2, 5:
		b.rep = func(string) int { return repStruct }
	case 3:
		b.rep = func(id string) int {
			if id == "q" {
				return repStruct
			}
			return []int{repResolver, repStruct}[sym.Choice("rep "+id, 2)]
		}
	default:
		b.rep = func(id string) int {
			if id == "q" {
				return repMap
			}
			return sym.Choice("rep "+id, 3)
		}
	}
	top := b.build(q)
	var root *ggql.Root
	switch top.(type) {
	case *c02Res:
		root = ggql.NewRoot(top)
	case map[string]interface{}:
		root = ggql.NewRoot(map[string]interface{}{"query": top, "id": "root"})
	default:
		root = ggql.NewRoot(&struct{ Query interface{} }{Query: top})
	}
	if config == 1 || config == 4 {
		root.AnyResolver = &c02Any{log: log}
	}
	if err := root.ParseString(c02Schema); err != nil {
		panic("harness schema rejected: " + err.Error())
	}
	if config == 5 {
		ok := root.RegisterType(&C02Obj{}, "Obj") == nil && root.RegisterType(&C02Obj{}, "Query") == nil
		for _, typ := range []string{"Obj", "Query"} {
			ok = ok && root.RegisterField(typ, "a", "A") == nil && root.RegisterField(typ, "s", "S") == nil &&
				root.RegisterField(typ, "g", "G", "x", "b") == nil
		}
		if !ok {
			panic("harness: RegisterType / RegisterField refused")
		}
	}
	return root
}

const c02NConfigs = 6

func c02Eager(n *node, seen map[*node]bool) {
	if n == nil || seen[n] {
		return
	}
	seen[n] = true
	c02Eager(n.getO(), seen)
	for _, e := range n.getL() {
		c02Eager(e, seen)
	}
}

// C02_equiv: request shapes of the kit grammar over every configuration.
func C02_equiv() {
	budget, depth, maxList := 2, 2, 2
	if sym.Thorough() {
		budget, depth, maxList = 3, 2, 2
	}
	sh := genShape(budget, depth)
	sym.Assume(!sh.conflicts("Query", sh.sels))
	var log []string
	q := newGraphWith(&log, maxList, true)
	c02Eager(q, map[*node]bool{})
	doc := sh.render()
	sym.Observe("doc", doc)
	listKind := sym.Choice("list kind", 3)
	sym.Budget(12_000_000)
	base := c02Root(0, q, listKind, &log).ResolveString(doc, "", nil)
	sym.Observe("base", base)
	want := sh.exec(q, sh.sels, 0)
	sym.Assert(sym.DeepEqual(base["data"], interface{}(want)), "interface strategy gives the selected data")
	config := []int{1, 2, 5}[sym.Choice("config", 3)] // the mixed graphs: C02_mixed
	log = log[:0]
	got := c02Root(config, q, listKind, &log).ResolveString(doc, "", nil)
	sym.Observe("got", got)
	sym.Assert(sym.DeepEqual(interface{}(got), interface{}(base)), "same response under every strategy")
}

var c02MixedDocs = []string{
	"{a s o{a s o{a} l{s}} l{a o{s}} ll n{a} __typename}",
	"{x:o{y:a ...on Obj{s}} ...F} fragment F on Query{l{a __typename}}",
}

// C02_mixed: graphs whose nodes are E-assigned to strategies (Resolver /
// struct without a root resolver; Resolver / map / struct with one), every
// null-ness and list variant of the graph, fixed requests that touch every
// field; precedence observed through the call log.
func C02_mixed() {
	doc := c02MixedDocs[sym.Choice("doc", len(c02MixedDocs))]
	maxList := 2
	if sym.Thorough() {
		maxList = 3
	}
	var log []string
	q := newGraphWith(&log, maxList, true)
	c02Eager(q, map[*node]bool{})
	listKind := sym.Choice("list kind", 3)
	sym.Budget(12_000_000)
	base := c02Root(0, q, listKind, &log).ResolveString(doc, "", nil)
	sym.Observe("base", base)
	sym.Assert(base["errors"] == nil, "interface strategy resolves the request")
	config := 3 + sym.Choice("config", 2)
	log = log[:0]
	got := c02Root(config, q, listKind, &log).ResolveString(doc, "", nil)
	sym.Observe("got", got)
	sym.Assert(sym.DeepEqual(interface{}(got), interface{}(base)), "same response under every strategy")
	for _, l := range log {
		if len(l) > 4 && l[:4] == "any:" {
			sym.Assert(config == 4, "root resolver only used where installed")
		}
	}
}

var c02ArgDocs = []struct {
	doc  string
	vars bool
}{
	{`{g(x:"§" b:true) o{g(x:"§" b:false)}}`, false},
	{`{r:g(b:false x:"§") l{g(x:"v" b:true) a}}`, false},
	{`query($x:String $b:Boolean){g(x:$x b:$b) o{s g(x:$x b:true)}}`, true},
	{`query($x:String="d" $b:Boolean=true){g(x:$x b:$b)}`, true},
	{`query($b:Boolean){...F o{...G}} fragment F on Query{g(x:"§" b:$b)} fragment G on Obj{q:g(x:"w" b:$b) a}`, true},
	{`{o{... on Obj{g(x:"§" b:true) s}} a}`, false},
}

// C02_args: string / boolean arguments (literals, variables, defaults, in
// fragments) reach the three kinds of resolver alike; precedence in mixed
// graphs is observed through the call log.
func C02_args() {
	c := c02ArgDocs[sym.Choice("doc", len(c02ArgDocs))]
	x := sym.String("x", 1)
	sym.Assume(isNameByte(x[0]))
	doc := ""
	for i := 0; i < len(c.doc); i++ {
		if c.doc[i] == 0xC2 && i+1 < len(c.doc) && c.doc[i+1] == 0xA7 {
			doc += x
			i++
		} else {
			doc += c.doc[i : i+1]
		}
	}
	var vars map[string]interface{}
	if c.vars {
		vars = map[string]interface{}{"x": x, "b": sym.Bool("b")}
	}
	var log []string
	q := newGraphWith(&log, 1, true)
	c02Eager(q, map[*node]bool{})
	sym.Observe("doc", doc)
	sym.Budget(12_000_000)
	base := c02Root(0, q, 0, &log).ResolveString(doc, "", vars)
	sym.Observe("base", base)
	sym.Assert(base["errors"] == nil, "interface strategy resolves the request")
	config := 1 + sym.Choice("config", c02NConfigs-1)
	log = log[:0]
	got := c02Root(config, q, 0, &log).ResolveString(doc, "", vars)
	sym.Observe("got", got)
	sym.Assert(sym.DeepEqual(interface{}(got), interface{}(base)), "same response under every strategy")
	// precedence: a Resolver node is served by its own Resolve, never by the
	// root resolver; with a root resolver installed nothing else is reflected
	for _, l := range log {
		if len(l) > 4 && l[:4] == "any:" {
			sym.Assert(config == 1 || config == 4, "root resolver only used where installed")
		}
	}
}

// ---- registered bindings: a Go method whose parameters come in another
// order than the GraphQL field declares its arguments (RegisterField names
// the argument for each parameter)

const c02RegSchema = `type Query { greet(p: String, q: String): String mix(f: Boolean, t: String): String }`

type c02RegRes struct{}

func (r *c02RegRes) Resolve(field *ggql.Field, args map[string]interface{}) (interface{}, error) {
	switch field.Name {
	case "query":
		return r, nil
	case "greet":
		p, _ := args["p"].(string)
		q, _ := args["q"].(string)
		return p + "," + q, nil
	case "mix":
		f, _ := args["f"].(bool)
		t, _ := args["t"].(string)
		if f {
			return t + "!", nil
		}
		return t, nil
	}
	return nil, nil
}

type C02RegQuery struct{}

func (q *C02RegQuery) Salute(qq, p string) string { return p + "," + qq }
func (q *C02RegQuery) Blend(t string, f bool) string {
	if f {
		return t + "!"
	}
	return t
}

type c02RegRoot struct{ Query *C02RegQuery }

// C02_registered
func C02_registered() {
	p, q := sym.String("p", 1), sym.String("q", 1)
	sym.Assume(sym.And(isNameByte(p[0]), isNameByte(q[0])))
	f := sym.Bool("f")
	fl := "false"
	if f {
		fl = "true"
	}
	var doc string
	var vars map[string]interface{}
	switch sym.Choice("doc", 4) {
	case 0:
		doc = `{greet(p:"` + p + `" q:"` + q + `") mix(f:` + fl + ` t:"` + p + `")}`
	case 1:
		doc = `{a:greet(q:"` + q + `" p:"` + p + `") b:mix(t:"` + q + `" f:` + fl + `)}`
	case 2:
		doc = `query($p:String $f:Boolean){greet(p:$p q:"` + q + `") mix(t:$p f:$f)}`
		vars = map[string]interface{}{"p": p, "f": f}
	default:
		doc = `{greet(q:"` + q + `") mix(t:"` + p + `")}` // the other argument omitted
	}
	sym.Observe("doc", doc)
	base := ggql.NewRoot(&c02RegRes{})
	if err := base.ParseString(c02RegSchema); err != nil {
		panic("harness schema rejected: " + err.Error())
	}
	want := base.ResolveString(doc, "", vars)
	sym.Assert(want["errors"] == nil, "interface strategy resolves the request")
	refl := ggql.NewRoot(&c02RegRoot{Query: &C02RegQuery{}})
	if err := refl.ParseString(c02RegSchema); err != nil {
		panic("harness schema rejected: " + err.Error())
	}
	if refl.RegisterType(&C02RegQuery{}, "Query") != nil ||
		refl.RegisterField("Query", "greet", "Salute", "q", "p") != nil ||
		refl.RegisterField("Query", "mix", "Blend", "t", "f") != nil {
		panic("harness: registration refused")
	}
	got := refl.ResolveString(doc, "", vars)
	sym.Observe("got", got)
	sym.Assert(sym.DeepEqual(interface{}(got), interface{}(want)), "same response under every strategy")
}

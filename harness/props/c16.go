package props

// C16 - a schema means the same however its definitions are ordered or
// split.  One definition set with forward and cyclic references, a directive
// with a defaulted argument used before and after its definition, and members
// that can be declared inline or through extend blocks; E arrangements
// (order inside a load, partition into successive loads that keep references
// resolvable, inline / extend per member), one type name S, map iteration
// order symbolic.  Every arrangement must agree with the canonical one.

import (
	"github.com/uhn/ggql/pkg/ggql"

	"verif/harness/sym"
)

// c16Defs renders the definition set.  obj is the (S) name of the object
// type; the booleans move a member into an extend block.
func c16Defs(obj string, xQuery, xEnum, xUnion, xInput, xIface bool) (base []string, closed int, extends []string) {
	q := "type Query { o: " + obj + " i: I u: U f(in: In): Int"
	if xQuery {
		extends = append(extends, "extend type Query { e: En z: Int }")
	} else {
		q += " e: En z: Int"
	}
	q += " }"
	en := "enum En { A"
	if xEnum {
		extends = append(extends, "extend enum En { B C }")
	} else {
		en += " B C"
	}
	en += " }"
	un := "union U = " + obj
	if xUnion {
		extends = append(extends, "extend union U = Query")
	} else {
		un += " | Query"
	}
	in := "input In { a: Int"
	if xInput {
		extends = append(extends, "extend input In { b: En c: Int }")
	} else {
		in += " b: En c: Int"
	}
	in += " }"
	ifc := "interface I { x: Int"
	if xIface {
		extends = append(extends, "extend interface I { y: Int }")
	} else {
		ifc += " y: Int"
	}
	ifc += " }"
	// (y carries two directive uses: with @d from an earlier load and @e from
	// the same document as the use, every resolution state meets on one member)
	ob := "type " + obj + " implements I { x: Int @d y: Int @d(n: 2) @e q: Query w: Int @d(n: null) v: Int @e @d }"
	dir := "directive @d(n: Int = 5) on FIELD_DEFINITION"
	dir2 := "directive @e(s: String = \"z\") on FIELD_DEFINITION"
	// dependency order: the first `closed` definitions only refer to each other
	base = []string{dir, en, in, ifc, ob, q, un, dir2}
	return base, 4, extends
}

func c16Arrange(defs []string, order int) string {
	n := len(defs)
	out := ""
	for k := 0; k < n; k++ {
		var d string
		switch order {
		case 0:
			d = defs[k]
		case 1:
			d = defs[n-1-k]
		case 2:
			d = defs[(k+1)%n]
		default:
			d = defs[(k+n-1)%n]
		}
		out += d + "\n"
	}
	return out
}

type c16Obs struct {
	err   bool
	desc  map[string]interface{}
	sdl   string
	intro map[string]interface{}
	mut   map[string]interface{}
}

// fillDirDefaults: the canonical form takes directive-argument defaults into
// account (the statement allows it): a use without the argument is the same
// as a use that spells the default.
func fillDirDefaults(root *ggql.Root, v interface{}) interface{} {
	switch tv := v.(type) {
	case map[string]interface{}:
		out := map[string]interface{}{}
		for k, e := range tv {
			out[k] = fillDirDefaults(root, e)
		}
		if name, isUse := tv["name"].(string); isUse {
			if args, hasArgs := tv["args"].(map[string]interface{}); hasArgs && len(tv) == 2 {
				if d, _ := root.GetType(name).(*ggql.Directive); d != nil {
					filled := map[string]interface{}{}
					for k, e := range args {
						filled[k] = fillDirDefaults(root, e)
					}
					if name == "d" {
						if _, has := filled["n"]; !has {
							filled["n"] = int64(5)
						}
					}
					out["args"] = filled
				}
			}
		}
		return out
	case []interface{}:
		out := make([]interface{}, 0, len(tv))
		for _, e := range tv {
			out = append(out, fillDirDefaults(root, e))
		}
		return out
	case int32: // a filled-in default is already coerced, a written one not yet: the same number
		return int64(tv)
	case int:
		return int64(tv)
	}
	return v
}

func c16Load(docs []string) *c16Obs {
	root := ggql.NewRoot(&c14Node{})
	for _, d := range docs {
		if err := root.ParseString(d); err != nil {
			return &c16Obs{err: true}
		}
	}
	sym.MapOrder(false) // (the observation code below ranges over maps of its own)
	o := &c16Obs{}
	o.desc, _ = fillDirDefaults(root, descSchema(root, "d", "e")).(map[string]interface{})
	o.intro = root.ResolveString(c14Introspection, "", nil)
	o.mut = root.ResolveString("mutation{m}", "", nil)
	return o
}

// C16_order
func C16_order() {
	obj := "O" + nameToken("type name") // S: the (rank, name) ordering of the type table is decided for every name
	sym.Assume(sym.And(obj != "On"))    // (no clash with a keyword-like token)
	xQuery, xEnum, xUnion, xInput, xIface := false, false, false, false, false
	switch sym.Choice("extend moves", 7) {
	case 1:
		xQuery = true
	case 2:
		xEnum = true
	case 3:
		xUnion = true
	case 4:
		xInput = true
	case 5:
		xIface = true
	case 6:
		xQuery, xEnum, xUnion, xInput, xIface = true, true, true, true, true
	}
	canonDefs, _, _ := c16Defs(obj, false, false, false, false, false)
	canon := c16Load([]string{c16Arrange(canonDefs, 0) + "type Mutation { m: Int }\ntype Subscription { s: Int }\n"})
	sym.Assert(!canon.err, "canonical arrangement accepted")

	sym.MapOrder(true)
	defs, closed, extends := c16Defs(obj, xQuery, xEnum, xUnion, xInput, xIface)
	split := sym.Choice("split", closed+2) // 0: one load; k: first k definitions in a load of their own; closed+1: extends in a load of their own
	order := sym.Choice("order", 4)
	var docs []string
	all := append(append([]string{}, defs...), extends...)
	switch {
	case split == 0:
		docs = []string{c16Arrange(all, order)}
	case split == closed+1:
		docs = []string{c16Arrange(defs, order)}
		if len(extends) > 0 {
			docs = append(docs, c16Arrange(extends, order))
		}
	default:
		docs = []string{c16Arrange(defs[:split], order), c16Arrange(append(append([]string{}, defs[split:]...), extends...), order)}
	}
	// the other root operation types: with the rest, or in loads of their own in either order
	const mut, sub = "type Mutation { m: Int }\n", "type Subscription { s: Int }\n"
	rootLayout := 0
	if order == 0 || sym.Thorough() {
		rootLayout = sym.Choice("root types", 5)
	}
	switch rootLayout {
	case 0:
		docs[len(docs)-1] += mut + sub
	case 1:
		docs = append(docs, mut, sub)
	case 2:
		docs = append(docs, sub, mut)
	case 3:
		docs[len(docs)-1] += sub
		docs = append(docs, mut)
	default:
		docs = append([]string{mut}, docs...)
		docs = append(docs, sub)
	}
	sym.Observe("docs", len(docs))
	sym.Budget(60_000_000)
	got := c16Load(docs)
	sym.Assert(!got.err, "every arrangement of an accepted definition set is accepted")
	sym.Assert(sym.DeepEqual(interface{}(got.desc), interface{}(canon.desc)), "same schema as the canonical arrangement")
	sym.Assert(sym.DeepEqual(interface{}(got.intro), interface{}(canon.intro)), "same introspection answer as the canonical arrangement")
	sym.Assert(sym.DeepEqual(interface{}(got.mut), interface{}(canon.mut)), "requests resolve as under the canonical arrangement")
}

// c16Invalid: definition sets that are invalid only as a whole - a base that
// is fine by itself and one more piece that contradicts it (the S name is
// written for §).  The contradiction must be noticed wherever the piece
// stands: before or after the base in one document, or in a later load.
var c16Invalid = []struct {
	base []string
	off  string
}{
	{[]string{"type Query { o: O i: I }", "interface I { x: Int }", "type O implements I { x: Int }"}, "extend interface I { §: Int }"},
	{[]string{"type Query { i: I }", "interface I { x: Int §: Int }"}, "type O implements I { x: Int }"},
	{[]string{"type Query { u: U e: En }", "union U = Query", "enum En { A }"}, "extend union U = En"},
	{[]string{"type Query { §: Int }"}, "extend type Query { §: Int }"},
	{[]string{"type Query { e: En }", "enum En { A § }"}, "extend enum En { § }"},
	{[]string{"type Query { f(i: In): Int }", "input In { §: Int }"}, "extend input In { §: Int }"},
	{[]string{"type Query { o: O i: I }", "interface I { §: Int }", "type O { x: Int }"}, "extend type O implements I"},
	{[]string{"type Query { o: O i: I }", "interface I { x: Int }", "type O implements I { x: Int }", "type P implements I { x: Int }"}, "extend interface I { §: Int } extend type O { §: Int }"},
	// (valid unless the name is x: the extension and its implementer together)
	{[]string{"type Query { o: O i: I }", "interface I { x: Int }", "type O implements I { x: Int }"}, "extend interface I { §: Int } extend type O { §: Int }"},
}

// C16_invalid: every arrangement of such a set gets the same verdict as the
// canonical one (everything in one document, the contradicting piece last).
func C16_invalid() {
	c := c16Invalid[sym.Choice("definition set", len(c16Invalid))]
	name := nameToken("member name")
	fill := func(s string) string {
		out := ""
		for i := 0; i < len(s); i++ {
			if s[i] == 0xC2 && i+1 < len(s) && s[i+1] == 0xA7 {
				out += name
				i++
				continue
			}
			out += s[i : i+1]
		}
		return out
	}
	var base []string
	for _, b := range c.base {
		base = append(base, fill(b))
	}
	off := fill(c.off)
	load := func(docs []string) bool {
		root := ggql.NewRoot(&c14Node{})
		for _, d := range docs {
			if err := root.ParseString(d); err != nil {
				return false
			}
		}
		return true
	}
	sym.Budget(20_000_000)
	canon := load([]string{c16Arrange(append(append([]string{}, base...), off), 0)})
	if canon {
		sym.Cover("definition set accepted")
	} else {
		sym.Cover("definition set rejected")
	}
	sym.MapOrder(true)
	var docs []string
	switch arr := sym.Choice("arrangement", 5); arr {
	case 4: // the base in one load, the contradicting piece in a later one
		docs = []string{c16Arrange(base, 0), off}
	default:
		docs = []string{c16Arrange(append(append([]string{}, base...), off), arr)}
	}
	sym.Observe("docs", len(docs))
	got := load(docs)
	sym.Assert(got == canon, "every arrangement gets the verdict of the canonical one")
}

package props

// C06 with several independent failures in one request, under the three
// ways a list can be backed ([]interface{}, ListResolver, root resolver with
// a failing Nth accessor) and with output-coercion failures: one S boolean
// per failure site, so every combination of failures is decided.

import (
	"github.com/uhn/ggql/pkg/ggql"

	"verif/harness/sym"
)

type c06Elem struct {
	k            int
	a            int32
	s            string
	failA, failS bool // the field's resolver fails
	badA         bool // the resolver returns a value Int cannot represent
	nth          bool // the list accessor fails for this index (root resolver only)
}

func (e *c06Elem) field(name string) (interface{}, error) {
	switch name {
	case "a":
		if e.failA {
			return nil, &injected{"injected"}
		}
		if e.badA {
			return "x", nil
		}
		return e.a, nil
	case "s":
		if e.failS {
			return nil, &injected{"injected"}
		}
		return e.s, nil
	}
	return nil, nil
}

func (e *c06Elem) Resolve(field *ggql.Field, args map[string]interface{}) (interface{}, error) {
	return e.field(field.Name)
}

type c06Query struct {
	elems []*c06Elem
	kind  int // 0: []interface{}  1: ListResolver
}

type c06List struct{ elems []*c06Elem }

func (l *c06List) Len() int              { return len(l.elems) }
func (l *c06List) Nth(i int) interface{} { return l.elems[i] }

func (q *c06Query) Resolve(field *ggql.Field, args map[string]interface{}) (interface{}, error) {
	switch field.Name {
	case "query":
		return q, nil
	case "l":
		if q.kind == 1 {
			return &c06List{q.elems}, nil
		}
		out := make([]interface{}, len(q.elems))
		for k, e := range q.elems {
			out[k] = e
		}
		return out, nil
	case "a":
		return int32(9), nil
	}
	return nil, nil
}

// root resolver over plain data: the list is a []*c06Elem only it can walk
type c06Any struct{}

func (c06Any) Resolve(obj interface{}, field *ggql.Field, args map[string]interface{}) (interface{}, error) {
	switch o := obj.(type) {
	case map[string]interface{}:
		return o[field.Name], nil
	case *c06Elem:
		return o.field(field.Name)
	}
	return nil, nil
}

func (c06Any) Len(list interface{}) int {
	l, _ := list.([]*c06Elem)
	return len(l)
}

func (c06Any) Nth(list interface{}, i int) (interface{}, error) {
	l, _ := list.([]*c06Elem)
	if l[i].nth {
		return nil, &injected{"slot unavailable"}
	}
	return l[i], nil
}

// c06QS: a reflected struct whose list is a typed Go slice (walked with
// reflect by resolveList)
type c06QS struct {
	L []*c06Elem
	A int32
}

const c06Strategies = 4 // []interface{}, ListResolver, root resolver with Nth, reflected typed slice

func c06Root(strategy int, elems []*c06Elem) *ggql.Root {
	var root *ggql.Root
	switch strategy {
	case 2:
		root = ggql.NewRoot(map[string]interface{}{"query": map[string]interface{}{"l": elems, "a": int32(9)}})
		root.AnyResolver = c06Any{}
	case 3:
		root = ggql.NewRoot(&struct{ Query *c06QS }{&c06QS{L: elems, A: 9}})
	default:
		root = ggql.NewRoot(&c06Query{elems: elems, kind: strategy})
	}
	if err := root.ParseString(kitSchema); err != nil {
		panic("harness schema rejected: " + err.Error())
	}
	return root
}

func c06Elems(n int, accessor bool) []*c06Elem {
	elems := make([]*c06Elem, n)
	for k := range elems {
		en := "e" + string(rune('0'+k))
		e := &c06Elem{k: k, a: sym.Int32(en + ".a"), s: sym.String(en+".s", 1)}
		e.failA = sym.Bool(en + " a fails")
		e.failS = sym.Bool(en + " s fails")
		e.badA = sym.Bool(en + " a has the wrong kind")
		if accessor {
			e.nth = sym.Bool(en + " accessor fails")
		}
		elems[k] = e
	}
	return elems
}

// C02_errors: the same failures under every way a list can be backed give
// the same response, error paths included.
func C02_errors() {
	maxN := 2
	if sym.Thorough() {
		maxN = 3
	}
	n := 1 + sym.Choice("len", maxN)
	elems := c06Elems(n, false)
	doc := "{l{a s} a}"
	sym.Budget(12_000_000)
	base := c06Root(0, elems).ResolveString(doc, "", nil)
	sym.Observe("base", base)
	other := 1 + sym.Choice("list strategy", c06Strategies-1)
	got := c06Root(other, elems).ResolveString(doc, "", nil)
	sym.Observe("got", got)
	sym.Assert(sym.DeepEqual(interface{}(got), interface{}(base)), "same response under every list strategy")
}

// C06_multi: {l{a s} a} over a list of N elements with every combination of
// failures.
func C06_multi() {
	maxN := 2
	if sym.Thorough() {
		maxN = 3
	}
	n := 1 + sym.Choice("len", maxN)
	strategy := sym.Choice("list strategy", c06Strategies)
	elems := c06Elems(n, strategy == 2)
	root := c06Root(strategy, elems)
	doc := "{l{a s} a}"
	akey := "a"
	switch sym.Choice("alias", 3) {
	case 1:
		doc = "{l{x:a s} a}"
		akey = "x"
	case 2: // the alias the library itself uses for the operation's own field
		doc = "{l{data:a s} a}"
		akey = "data"
	}
	sym.Budget(8_000_000)
	res := root.ResolveString(doc, "", nil)
	sym.Observe("res", res)

	// expectation
	var paths []interface{}
	list := make([]interface{}, 0, n)
	for k, e := range elems {
		if e.nth {
			paths = append(paths, []interface{}{"l", k})
			list = append(list, nil)
			continue
		}
		m := map[string]interface{}{}
		if e.failA || e.badA {
			paths = append(paths, []interface{}{"l", k, akey})
			m[akey] = nil
		} else {
			m[akey] = e.a
		}
		if e.failS {
			paths = append(paths, []interface{}{"l", k, "s"})
			m["s"] = nil
		} else {
			m["s"] = e.s
		}
		list = append(list, m)
	}
	want := map[string]interface{}{"l": list, "a": int32(9)}
	errs, _ := res["errors"].([]interface{})
	sym.Assert(len(errs) == len(paths), "one error entry per failure")
	for k, e := range errs {
		if k >= len(paths) {
			break
		}
		em, _ := e.(map[string]interface{})
		sym.Assert(sym.DeepEqual(em["path"], paths[k]), "error path addresses the failing position")
	}
	sym.Assert(sym.DeepEqual(res["data"], interface{}(want)), "null at the failing positions, everything else unchanged")
}

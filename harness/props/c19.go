package props

// C19 - subscription events reach exactly the live, matching subscribers.
// The registry is driven through the real entry points (subscription requests
// through ResolveString / ResolveExecutable, Root.AddEvent, Root.Unsubscribe)
// with harness Subscribers whose Match answer and Send failure are free
// booleans per (subscriber, operation): every matching / failing pattern of
// every history within the bound is decided, not sampled.  A reference
// registry model (a list of live subscriber numbers) is stepped alongside.

import (
	"github.com/uhn/ggql/pkg/ggql"

	"verif/harness/sym"
)

const c19Schema = kitSchema + `
type Subscription { ev: Obj ev2: Obj }
`

type c19Delivery struct {
	sub int
	val interface{}
}

type c19State struct {
	op       int             // number of the operation in progress
	match    map[[2]int]bool // (subscriber, op) -> Match answer (drawn once)
	fail     map[[2]int]bool // (subscriber, op) -> Send fails
	log      []c19Delivery   // deliveries of the operation in progress
	unsubs   []int           // clean-up calls per subscriber
	sels     [][]*sel        // selection set of each subscriber
	shapes   []*shape
	nextSel  int
	matchAll bool // probe mode: every subscriber matches, nothing fails
	canFail  bool
	asked    map[[2]int]int // (subscriber, op) -> number of Match calls
}

type c19Sub struct {
	k  int
	st *c19State
}

func (s *c19Sub) Match(id string) bool {
	key := [2]int{s.k, s.st.op}
	s.st.asked[key]++
	if s.st.matchAll {
		return true
	}
	if b, ok := s.st.match[key]; ok {
		return b
	}
	b := sym.Bool("match")
	s.st.match[key] = b
	return b
}

func (s *c19Sub) Send(v interface{}) error {
	s.st.log = append(s.st.log, c19Delivery{s.k, v})
	if s.st.matchAll || !s.st.canFail {
		return nil
	}
	key := [2]int{s.k, s.st.op}
	b, ok := s.st.fail[key]
	if !ok {
		b = sym.Bool("fail")
		s.st.fail[key] = b
	}
	if b {
		return &injected{"send failed"}
	}
	return nil
}

func (s *c19Sub) Unsubscribe() { s.st.unsubs[s.k]++ }

// the application's root and subscription objects (interface strategy)
type c19Root struct {
	q  *node
	st *c19State
}

func (r *c19Root) Resolve(field *ggql.Field, args map[string]interface{}) (interface{}, error) {
	if field.Name == "subscription" {
		return &c19SubRoot{r.st}, nil
	}
	return r.q.Resolve(field, args)
}

type c19SubRoot struct{ st *c19State }

func (r *c19SubRoot) Resolve(field *ggql.Field, args map[string]interface{}) (interface{}, error) {
	st := r.st
	k := len(st.unsubs)
	st.unsubs = append(st.unsubs, 0)
	return ggql.NewSubscription(&c19Sub{k: k, st: st}, field, args), nil
}

// the family of selection sets subscribers use
func c19Selection(j int) (*shape, string) {
	sh := &shape{frags: map[string]*sel{}}
	switch j {
	case 0:
		sh.sels = []*sel{{kind: selField, name: "a"}}
	case 1:
		sh.sels = []*sel{{kind: selField, name: "s"}, {kind: selField, name: "a", alias: "x"}}
	case 2:
		sh.sels = []*sel{{kind: selField, name: "__typename"}, {kind: selField, name: "o", sub: []*sel{{kind: selField, name: "s"}}}}
	case 3:
		sh.sels = []*sel{{kind: selInline, cond: "Obj", sub: []*sel{{kind: selField, name: "a"}}}, {kind: selField, name: "s"}}
	default:
		sh.frags["F"] = &sel{kind: selInline, cond: "Obj", sub: []*sel{{kind: selField, name: "s"}}}
		sh.order = []string{"F"}
		sh.sels = []*sel{{kind: selSpread, frag: "F"}, {kind: selField, name: "a"}}
	}
	doc := "subscription{ev" + renderSels(sh.sels) + "}"
	if j == 1 || j == 3 {
		// the root field reached through an inline fragment on the subscription type
		doc = "subscription{... on Subscription{ev" + renderSels(sh.sels) + "}}"
	}
	for _, name := range sh.order {
		f := sh.frags[name]
		doc += " fragment " + name + " on " + f.cond + renderSels(f.sub)
	}
	return sh, doc
}

const c19NSel = 5

type c19Rig struct {
	root *ggql.Root
	st   *c19State
	live []int // reference model: live subscribers in registration order
}

func newC19Rig() *c19Rig {
	st := &c19State{match: map[[2]int]bool{}, fail: map[[2]int]bool{}, asked: map[[2]int]int{}, canFail: true}
	q := &node{id: "q", typ: "Query", a: int32(1), s: "q"}
	root := ggql.NewRoot(&c19Root{q: q, st: st})
	if err := root.ParseString(c19Schema); err != nil {
		panic("harness schema rejected: " + err.Error())
	}
	return &c19Rig{root: root, st: st}
}

// subscribe registers one subscriber through a subscription request.
func (r *c19Rig) subscribe(j int) {
	sh, doc := c19Selection(j)
	before := len(r.st.unsubs)
	res := r.root.ResolveString(doc, "", nil)
	sym.Assert(res["errors"] == nil, "subscription request accepted")
	sym.Assert(len(r.st.unsubs) == before+1, "one subscriber created per subscription request")
	r.st.sels = append(r.st.sels, sh.sels)
	r.st.shapes = append(r.st.shapes, sh)
	r.live = append(r.live, before)
}

func c19Event(name string) *node {
	inner := &node{id: name + ".o", typ: "Obj", a: sym.Int32(name + ".o.a"), s: sym.String(name+".o.s", 1)}
	return &node{id: name, typ: "Obj", a: sym.Int32(name + ".a"), s: sym.String(name+".s", 1), oAlt: inner}
}

// publish runs AddEvent and checks it against the model.
func (r *c19Rig) publish(name string) {
	st := r.st
	st.op++
	st.log = nil
	ev := c19Event(name)
	before := append([]int(nil), st.unsubs...)
	cnt, err := r.root.AddEvent("id", ev)
	// model
	var want []int
	var failed []int
	var rest []int
	for _, k := range r.live {
		if st.matchAll || st.match[[2]int{k, st.op}] {
			want = append(want, k)
			if !st.matchAll && st.fail[[2]int{k, st.op}] {
				failed = append(failed, k)
				continue
			}
		}
		rest = append(rest, k)
	}
	r.consulted()
	sym.Assert(cnt == len(want), "publish reports the number of matching subscribers")
	sym.Assert(len(st.log) == len(want), "exactly one message per live matching subscriber")
	for n, d := range st.log {
		if n >= len(want) {
			break
		}
		sym.Assert(d.sub == want[n], "messages go to the matching subscribers in registration order")
		exp := st.shapes[d.sub].exec(ev, st.sels[d.sub], 0)
		sym.Assert(sym.DeepEqual(d.val, interface{}(exp)), "message is the subscriber's own selection applied to the event")
	}
	sym.Assert((err != nil) == (len(failed) > 0), "publish reports an error exactly when a delivery failed")
	for k := range st.unsubs {
		exp := before[k]
		for _, f := range failed {
			if f == k {
				exp++
			}
		}
		sym.Assert(st.unsubs[k] == exp, "clean-up called exactly once for each failed subscriber and for no other")
	}
	r.live = rest
}

// consulted: the operation asked every live subscriber exactly once whether
// it matches, and no subscriber that had been removed.
func (r *c19Rig) consulted() {
	st := r.st
	for k := range st.unsubs {
		isLive := false
		for _, l := range r.live {
			if l == k {
				isLive = true
			}
		}
		n := st.asked[[2]int{k, st.op}]
		if isLive {
			sym.Assert(n == 1, "every live subscriber is consulted once")
		} else {
			sym.Assert(n == 0, "a removed subscriber is never consulted again")
		}
	}
}

// unsubscribe runs Unsubscribe and checks it against the model.
func (r *c19Rig) unsubscribe() {
	st := r.st
	st.op++
	st.log = nil
	before := append([]int(nil), st.unsubs...)
	cnt := r.root.Unsubscribe("id")
	var removed []int
	var rest []int
	for _, k := range r.live {
		if st.match[[2]int{k, st.op}] {
			removed = append(removed, k)
		} else {
			rest = append(rest, k)
		}
	}
	r.consulted()
	sym.Assert(cnt == len(removed), "unsubscribe reports the number removed")
	sym.Assert(len(st.log) == 0, "unsubscribe delivers nothing")
	for k := range st.unsubs {
		exp := before[k]
		for _, f := range removed {
			if f == k {
				exp++
			}
		}
		sym.Assert(st.unsubs[k] == exp, "clean-up called exactly once for each removed subscriber and for no other")
	}
	r.live = rest
}

// probe publishes an event every subscriber matches: the deliveries reveal
// the registry's content and order.
func (r *c19Rig) probe() {
	r.st.matchAll = true
	r.publish("probe")
	r.st.matchAll = false
}

// C19_step: one registry operation from every registry of up to N subscribers
// (each with an E-chosen selection set), every match/fail pattern.
func C19_step() {
	r := newC19Rig()
	maxN := 2
	if sym.Thorough() {
		maxN = 3
	}
	n := sym.Choice("subscribers", maxN+1)
	for k := 0; k < n; k++ {
		r.subscribe(sym.Choice("selection", c19NSel))
	}
	sym.Budget(20_000_000)
	switch sym.Choice("op", 3) {
	case 0:
		r.publish("e")
	case 1:
		r.unsubscribe()
	default:
		r.subscribe(sym.Choice("selection", c19NSel))
	}
	r.probe()
}

// C19_hist: histories of K operations, model and implementation in lock-step.
func C19_hist() {
	r := newC19Rig()
	steps := 3
	if sym.Thorough() {
		steps = 4
	}
	r.subscribe(0)
	r.subscribe(1)
	sym.Budget(30_000_000)
	for k := 0; k < steps; k++ {
		switch sym.Choice("op", 3) {
		case 0:
			r.publish("e" + string(rune('0'+k)))
		case 1:
			r.unsubscribe()
		default:
			r.subscribe(2 + sym.Choice("selection", 2))
		}
	}
	r.probe()
}

// C19_resub: the same parsed executable used for several subscription
// requests (an Executable is documented as prepared once, executed many
// times), interleaved with publishes.
func C19_resub() {
	r := newC19Rig()
	j := sym.Choice("selection", c19NSel)
	sh, doc := c19Selection(j)
	exe, err := r.root.ParseExecutableString(doc)
	sym.Assert(err == nil, "subscription document accepted")
	times := 2
	if sym.Thorough() {
		times = 3
	}
	sym.Budget(20_000_000)
	for k := 0; k < times; k++ {
		before := len(r.st.unsubs)
		_, rerr := r.root.ResolveExecutable(exe, "", nil)
		sym.Assert(rerr == nil, "subscription request accepted")
		sym.Assert(len(r.st.unsubs) == before+1, "one subscriber created per subscription request")
		r.st.sels = append(r.st.sels, sh.sels)
		r.st.shapes = append(r.st.shapes, sh)
		r.live = append(r.live, before)
		if sym.Choice("publish between", 2) == 1 {
			r.publish("e" + string(rune('0'+k)))
		}
	}
	r.probe()
}

package props

// C01 over abstract types: an interface whose implementers narrow a field's
// type (Pet.friend: Pet, Dog.friend: Dog, Cat.friend: Cat - a valid schema),
// heterogeneous lists in every order, the same parsed executable resolved
// again over other data.  Reference executor over the harness's own hierarchy.

import (
	"github.com/uhn/ggql/pkg/ggql"

	"verif/harness/sym"
)

const c01AbsSchema = `
interface Pet { name: String friend: Pet }
interface Named { name: String }
type Dog implements Named & Pet { name: String friend: Dog bark: Int }
type Cat implements Pet & Named { name: String friend: Cat meow: Int }
type Query { pets: [Pet] pet: Pet }
`

type petData struct {
	dog    bool
	name   string
	sound  int32
	friend *petData
}

// C01Dog / C01Cat: Resolver nodes bound with RegisterType
type C01Dog struct{ d *petData }
type C01Cat struct{ d *petData }

func petNode(d *petData) interface{} {
	if d == nil {
		return nil
	}
	if d.dog {
		return &C01Dog{d}
	}
	return &C01Cat{d}
}

func (n *C01Dog) Resolve(field *ggql.Field, args map[string]interface{}) (interface{}, error) {
	switch field.Name {
	case "name":
		return n.d.name, nil
	case "bark":
		return n.d.sound, nil
	case "friend":
		return petNode(n.d.friend), nil
	}
	return nil, nil
}

func (n *C01Cat) Resolve(field *ggql.Field, args map[string]interface{}) (interface{}, error) {
	switch field.Name {
	case "name":
		return n.d.name, nil
	case "meow":
		return n.d.sound, nil
	case "friend":
		return petNode(n.d.friend), nil
	}
	return nil, nil
}

type c01AbsQuery struct{ pets []*petData }

func (q *c01AbsQuery) Resolve(field *ggql.Field, args map[string]interface{}) (interface{}, error) {
	switch field.Name {
	case "query":
		return q, nil
	case "pets":
		out := make([]interface{}, len(q.pets))
		for k, p := range q.pets {
			out[k] = petNode(p)
		}
		return out, nil
	case "pet":
		if len(q.pets) > 0 {
			return petNode(q.pets[0]), nil
		}
	}
	return nil, nil
}

func petApplies(d *petData, cond string) bool {
	switch cond {
	case "", "Pet", "Named":
		return true
	case "Dog":
		return d.dog
	case "Cat":
		return !d.dog
	}
	return false
}

// petExec: reference execution of a selection set on a pet.
func petExec(sh *shape, d *petData, sels []*sel) map[string]interface{} {
	out := map[string]interface{}{}
	var walk func(sels []*sel)
	walk = func(sels []*sel) {
		for _, s := range sels {
			switch s.kind {
			case selField:
				switch s.name {
				case "__typename":
					if d.dog {
						out[s.key()] = "Dog"
					} else {
						out[s.key()] = "Cat"
					}
				case "name":
					out[s.key()] = d.name
				case "bark", "meow":
					out[s.key()] = d.sound
				case "friend":
					if d.friend == nil {
						out[s.key()] = nil
					} else {
						out[s.key()] = petExec(sh, d.friend, s.sub)
					}
				}
			case selInline:
				if petApplies(d, s.cond) {
					walk(s.sub)
				}
			case selSpread:
				f := sh.frags[s.frag]
				if petApplies(d, f.cond) {
					walk(f.sub)
				}
			}
		}
	}
	walk(sels)
	return out
}

func sfld(name string, sub ...*sel) *sel { return &sel{kind: selField, name: name, sub: sub} }
func on(cond string, sub ...*sel) *sel   { return &sel{kind: selInline, cond: cond, sub: sub} }

func c01AbsShape(k int) (*shape, []*sel) {
	sh := &shape{frags: map[string]*sel{}}
	var petSels []*sel
	switch k {
	case 0:
		petSels = []*sel{sfld("__typename"), sfld("name"), on("Named", &sel{kind: selField, name: "name", alias: "nn"}), sfld("friend", sfld("__typename"), sfld("name"), on("Dog", sfld("bark")), on("Cat", sfld("meow")))}
	case 1:
		petSels = []*sel{{kind: selField, name: "name", alias: "n"}, on("Dog", sfld("friend", sfld("bark"))), on("Cat", sfld("friend", sfld("meow")))}
	case 2:
		sh.frags["F"] = &sel{kind: selInline, cond: "Pet", sub: []*sel{sfld("friend", sfld("__typename"), sfld("friend", sfld("__typename")))}}
		sh.order = []string{"F"}
		petSels = []*sel{{kind: selSpread, frag: "F"}, sfld("name")}
	default:
		sh.frags["G"] = &sel{kind: selInline, cond: "Dog", sub: []*sel{sfld("bark"), sfld("friend", sfld("name"))}}
		sh.order = []string{"G"}
		petSels = []*sel{sfld("__typename"), {kind: selSpread, frag: "G"}, on("Cat", sfld("friend", sfld("__typename"), sfld("meow")))}
	}
	sh.sels = []*sel{sfld("pets", petSels...)}
	return sh, petSels
}

func c01Pets(name string, n int) []*petData {
	out := make([]*petData, n)
	for k := range out {
		pn := name + string(rune('0'+k))
		d := &petData{dog: sym.Choice(pn+" kind", 2) == 0, name: sym.String(pn+".name", 1), sound: sym.Int32(pn + ".sound")}
		if sym.Choice(pn+" friend", 2) == 1 {
			d.friend = &petData{dog: d.dog, name: sym.String(pn+".f.name", 1), sound: sym.Int32(pn + ".f.sound")}
			if sym.Choice(pn+" friend2", 2) == 1 {
				d.friend.friend = d // cyclic
			}
		}
		out[k] = d
	}
	return out
}

// C01_abstract: heterogeneous interface-typed lists with covariant fields;
// the parsed executable is resolved a second time over other data.
func C01_abstract() { c01AbsRun([]int{0, 1, 2, 3}, 2) }

// C08_covariant: the same graph seen from C08 - every element of a mixed
// interface list, and every friend reached through a covariant field, is
// resolved as ITS concrete type (type conditions, __typename, fields of the
// narrower type), whichever type came first in the list.
func C08_covariant() { c01AbsRun([]int{0, 3}, 1) }

func c01AbsRun(shapes []int, rounds int) {
	sh, petSels := c01AbsShape(shapes[sym.Choice("shape", len(shapes))])
	maxN := 2
	if sym.Thorough() {
		maxN = 3
	}
	q := &c01AbsQuery{}
	root := ggql.NewRoot(q)
	if err := root.ParseString(c01AbsSchema); err != nil {
		panic("harness schema rejected: " + err.Error())
	}
	if root.RegisterType(&C01Dog{}, "Dog") != nil || root.RegisterType(&C01Cat{}, "Cat") != nil {
		panic("harness: RegisterType refused")
	}
	doc := sh.render()
	sym.Observe("doc", doc)
	exe, err := root.ParseExecutableString(doc)
	sym.Assert(err == nil, "document accepted")
	sym.Budget(12_000_000)
	for round := 0; round < rounds; round++ {
		q.pets = c01Pets("r"+string(rune('0'+round))+"p", 1+sym.Choice("pets", maxN))
		res, rerr := root.ResolveExecutable(exe, "", nil)
		sym.Observe("res", res)
		sym.Assert(rerr == nil, "valid request has no errors")
		want := make([]interface{}, 0, len(q.pets))
		for _, p := range q.pets {
			want = append(want, petExec(sh, p, petSels))
		}
		data, _ := res["data"].(map[string]interface{})
		sym.Assert(data != nil, "data present")
		sym.Assert(sym.DeepEqual(data["pets"], interface{}(want)), "data is exactly the selection")
	}
}

package props

// An independent JSON reader (RFC 8259) used as the "standard JSON parser"
// of C07/C18.  Numbers without fraction/exponent that fit are int64,
// otherwise the text is kept (jnum) - the harnesses compare integers only.

type jnum string

type jparser struct {
	s   string
	pos int
	bad bool
}

func (p *jparser) ws() {
	for p.pos < len(p.s) {
		c := p.s[p.pos]
		if c == ' ' || c == '\t' || c == '\n' || c == '\r' {
			p.pos++
		} else {
			return
		}
	}
}

func (p *jparser) fail() interface{} {
	p.bad = true
	return nil
}

func hexVal(c byte) (int32, bool) {
	switch {
	case c >= '0' && c <= '9':
		return int32(c - '0'), true
	case c >= 'a' && c <= 'f':
		return int32(c-'a') + 10, true
	case c >= 'A' && c <= 'F':
		return int32(c-'A') + 10, true
	}
	return 0, false
}

func (p *jparser) str() (string, bool) {
	if p.pos >= len(p.s) || p.s[p.pos] != '"' {
		return "", false
	}
	p.pos++
	out := ""
	for p.pos < len(p.s) {
		c := p.s[p.pos]
		switch {
		case c == '"':
			p.pos++
			return out, true
		case c < 0x20:
			return "", false
		case c == '\\':
			if p.pos+1 >= len(p.s) {
				return "", false
			}
			e := p.s[p.pos+1]
			p.pos += 2
			switch e {
			case '"', '\\', '/':
				out += string([]byte{e})
			case 'b':
				out += "\b"
			case 'f':
				out += "\f"
			case 'n':
				out += "\n"
			case 'r':
				out += "\r"
			case 't':
				out += "\t"
			case 'u':
				if p.pos+4 > len(p.s) {
					return "", false
				}
				var r int32
				for k := 0; k < 4; k++ {
					h, ok := hexVal(p.s[p.pos+k])
					if !ok {
						return "", false
					}
					r = r<<4 | h
				}
				p.pos += 4
				out += string(rune(r))
			default:
				return "", false
			}
		default:
			out += p.s[p.pos : p.pos+1]
			p.pos++
		}
	}
	return "", false
}

func (p *jparser) lit(word string, v interface{}) interface{} {
	if p.pos+len(word) <= len(p.s) && p.s[p.pos:p.pos+len(word)] == word {
		p.pos += len(word)
		return v
	}
	return p.fail()
}

func (p *jparser) value() interface{} {
	p.ws()
	if p.pos >= len(p.s) {
		return p.fail()
	}
	c := p.s[p.pos]
	switch {
	case c == '{':
		p.pos++
		m := map[string]interface{}{}
		p.ws()
		if p.pos < len(p.s) && p.s[p.pos] == '}' {
			p.pos++
			return m
		}
		for {
			p.ws()
			k, ok := p.str()
			if !ok {
				return p.fail()
			}
			p.ws()
			if p.pos >= len(p.s) || p.s[p.pos] != ':' {
				return p.fail()
			}
			p.pos++
			v := p.value()
			if p.bad {
				return nil
			}
			if _, dup := m[k]; dup {
				return p.fail() // duplicate member: not "the same structure"
			}
			m[k] = v
			p.ws()
			if p.pos >= len(p.s) {
				return p.fail()
			}
			if p.s[p.pos] == ',' {
				p.pos++
				continue
			}
			if p.s[p.pos] == '}' {
				p.pos++
				return m
			}
			return p.fail()
		}
	case c == '[':
		p.pos++
		l := []interface{}{}
		p.ws()
		if p.pos < len(p.s) && p.s[p.pos] == ']' {
			p.pos++
			return l
		}
		for {
			v := p.value()
			if p.bad {
				return nil
			}
			l = append(l, v)
			p.ws()
			if p.pos >= len(p.s) {
				return p.fail()
			}
			if p.s[p.pos] == ',' {
				p.pos++
				continue
			}
			if p.s[p.pos] == ']' {
				p.pos++
				return l
			}
			return p.fail()
		}
	case c == '"':
		s, ok := p.str()
		if !ok {
			return p.fail()
		}
		return s
	case c == 't':
		return p.lit("true", true)
	case c == 'f':
		return p.lit("false", false)
	case c == 'n':
		return p.lit("null", nil)
	case c == '-' || (c >= '0' && c <= '9'):
		start := p.pos
		if c == '-' {
			p.pos++
		}
		if p.pos >= len(p.s) {
			return p.fail()
		}
		if p.s[p.pos] == '0' {
			p.pos++
		} else if p.s[p.pos] >= '1' && p.s[p.pos] <= '9' {
			for p.pos < len(p.s) && p.s[p.pos] >= '0' && p.s[p.pos] <= '9' {
				p.pos++
			}
		} else {
			return p.fail()
		}
		isInt := true
		if p.pos < len(p.s) && p.s[p.pos] == '.' {
			isInt = false
			p.pos++
			n := 0
			for p.pos < len(p.s) && p.s[p.pos] >= '0' && p.s[p.pos] <= '9' {
				p.pos++
				n++
			}
			if n == 0 {
				return p.fail()
			}
		}
		if p.pos < len(p.s) && (p.s[p.pos] == 'e' || p.s[p.pos] == 'E') {
			isInt = false
			p.pos++
			if p.pos < len(p.s) && (p.s[p.pos] == '+' || p.s[p.pos] == '-') {
				p.pos++
			}
			n := 0
			for p.pos < len(p.s) && p.s[p.pos] >= '0' && p.s[p.pos] <= '9' {
				p.pos++
				n++
			}
			if n == 0 {
				return p.fail()
			}
		}
		text := p.s[start:p.pos]
		if isInt {
			if v, ok := parseInt64Text(text); ok {
				return v
			}
		}
		return jnum(text)
	}
	return p.fail()
}

// parseJSON parses a complete JSON text.
func parseJSON(s string) (interface{}, bool) {
	p := &jparser{s: s}
	v := p.value()
	if p.bad {
		return nil, false
	}
	p.ws()
	if p.pos != len(p.s) {
		return nil, false
	}
	return v, true
}

// parseInt64Text reads an optionally signed decimal integer that fits int64.
func parseInt64Text(text string) (int64, bool) {
	neg := false
	k := 0
	if len(text) > 0 && text[0] == '-' {
		neg = true
		k = 1
	}
	if len(text)-k == 0 || len(text)-k > 19 {
		return 0, false
	}
	var u uint64
	for ; k < len(text); k++ {
		d := uint64(text[k] - '0')
		if u > (1<<63)/10 {
			return 0, false
		}
		u = u*10 + d
	}
	if neg {
		if u > 1<<63 {
			return 0, false
		}
		return -int64(u), true
	}
	if u > 1<<63-1 {
		return 0, false
	}
	return int64(u), true
}

package props

// C15 - printed SDL re-parses to the same schema.  Skeleton schemas (one per
// printable construct) carry S string contents - descriptions and string
// default values of every byte content, written as block strings in the
// source - and S integer defaults; the printed text must be accepted by a
// fresh root, print to the same text again, and describe the same schema
// when read through the public API.

import (
	"unicode/utf8"

	"github.com/uhn/ggql/pkg/ggql"

	"verif/harness/sym"
)

// block renders a symbolic string as a GraphQL block string whose content is
// exactly s: quotes and backslashes are written as escapes (ggql's scanner
// reads escapes inside block strings too), so three quotes in a row, a
// trailing quote or a backslash are all inside the space.  The text length
// depends on the bytes, which costs one fork per byte.
func block(s string) string {
	sym.Assume(utf8.ValidString(s)) // the property's domain: text
	out := `"""`
	for i := 0; i < len(s); i++ {
		switch {
		case s[i] == '"':
			out += `\"`
		case s[i] == '\\':
			out += `\\`
		default:
			out += s[i : i+1]
		}
	}
	return out + `"""`
}

type c15Case struct {
	src   string   // §D = a description, §S = a string default, §I = an integer default
	names []string // directive names to look up
}

var c15Cases = []c15Case{
	{src: "§D type Query { §D a(§D x: Int = §I y: String = §S): Int }"},
	{src: "type Query { a: E } §D enum E { §D X Y @deprecated(reason: §S) }"},
	{src: "type Query { a(i: In): Int } §D input In { §D f: String = §S g: Int = §I l: [Int] = [1, 2] o: In2 = {k: 1} } input In2 { k: Int }"},
	{src: "type Query { a: Int @d(s: §S) } §D directive @d(§D s: String = §S n: Int = §I) on FIELD_DEFINITION", names: []string{"d"}},
	{src: "type Query { i: I u: U s: Sc } §D interface I { §D x: Int } §D union U = A | B type A implements I { x: Int } type B { y: Int } §D scalar Sc"},
	{src: "type Query { a: Int @deprecated(reason: §S) b(x: [String!]! = [§S]): [[Int]!] }"},
	{src: "type Query { a: Int @d(n: null) b: Int @d c: Int @d(n: 3, s: §S, l: [1, 2], o: {k: true}, e: X) } directive @d(n: Int = §I s: String = \"z\" l: [Int] o: In2 e: E = X) on FIELD_DEFINITION enum E { X Y } input In2 { k: Boolean }", names: []string{"d"}},
	{src: "schema { query: Query } type Query { a: Mutation s: Subscription } §D type Mutation { b: String } type Subscription { c(x: String = §S): Int }"},
	{src: "type Query { f(a: Float = 2500000.5 b: Float = 1e21 c: Float = 1e-7 d: [Float] = [0.5, -6.02e23] e: Float64 = 1.7976931348623157e308 s: String = §S): Int }"},
}

// C15_roundtrip
func C15_roundtrip() {
	// which part is symbolic: 0 the description, 1 the string default (the
	// other is a fixed text), 2 both.  quick: 0 or 1 with up to 2 bytes;
	// thorough: 0 or 1 with up to 3 bytes (three quotes in a row need three),
	// or both with up to 1 byte each.  Every byte value (valid UTF-8).
	which, maxLen := 0, 2
	if sym.Thorough() {
		which = sym.Choice("symbolic part", 3)
		if which != 2 {
			maxLen = 3
		} else {
			maxLen = 1 // both symbolic: one byte each (two each did not fit 25 minutes)
		}
	} else {
		which = sym.Choice("symbolic part", 2)
	}
	desc, str := "d", "s"
	dlen, slen := 1, 1
	if which != 1 {
		dlen = sym.Choice("desc len", maxLen+1)
		desc = sym.String("desc", dlen)
	}
	if which != 0 {
		slen = sym.Choice("string len", maxLen+1)
		str = sym.String("str", slen)
	}
	// three symbolic bytes only through the first skeleton (descriptions of a
	// type, a field and an argument, a string default): with all seven the
	// thorough tier did not finish in 45 minutes
	ncases := len(c15Cases)
	if dlen == 3 || slen == 3 {
		ncases = 1
	}
	c := c15Cases[sym.Choice("case", ncases)]
	in := sym.Int64("int")
	sym.Assume(sym.And(in >= -9, in < 100)) // formatting bound (DESIGN.md section 3.4)
	dText := ""
	if dlen > 0 {
		dText = block(desc) + " "
	}
	sText := block(str)
	iText := "7"
	useInt := sym.Choice("int default", 2) == 1
	src := ""
	for i := 0; i < len(c.src); i++ {
		if c.src[i] == 0xC2 && i+2 < len(c.src) && c.src[i+1] == 0xA7 {
			switch c.src[i+2] {
			case 'D':
				src += dText
			case 'S':
				src += sText
			case 'I':
				src += iText
			}
			i += 2
			continue
		}
		src += c.src[i : i+1]
	}
	_ = useInt
	_ = in
	sym.Observe("src", src)
	sym.Budget(20_000_000)
	r1 := ggql.NewRoot(nil)
	if err := r1.ParseString(src); err != nil {
		sym.Cover("source refused")
		return // not a schema the root accepts
	}
	sym.Cover("source accepted")
	s1 := r1.SDL(false, true)
	sym.Observe("s1", s1)
	r2 := ggql.NewRoot(nil)
	err := r2.ParseString(s1)
	sym.Assert(err == nil, "printed SDL is accepted by a fresh root")
	s2 := r2.SDL(false, true)
	sym.Assert(s2 == s1, "printing again yields the same text")
	const ops = "{__schema{queryType{name} mutationType{name} subscriptionType{name}}}"
	sym.Assert(sym.DeepEqual(interface{}(r1.ResolveString(ops, "", nil)), interface{}(r2.ResolveString(ops, "", nil))), "the printed SDL binds the same root operation types")
	d1 := descSchema(r1, c.names...)
	d2 := descSchema(r2, c.names...)
	sym.Assert(sym.DeepEqual(interface{}(d1), interface{}(d2)), "the printed SDL defines the same schema")
	// per type, as ggqlgen -w / -e emit it
	all := ""
	for _, t := range r1.Types() {
		if !t.Core() {
			all += t.SDL(true) + "\n"
		}
	}
	for _, n := range c.names {
		all += r1.GetType(n).SDL(true) + "\n"
	}
	r3 := ggql.NewRoot(nil)
	sym.Assert(r3.ParseString(all) == nil, "per-type SDL is accepted by a fresh root")
	sym.Assert(sym.DeepEqual(interface{}(descSchema(r3, c.names...)), interface{}(d1)), "per-type SDL defines the same schema")
}

package props

import (
	"math"

	"github.com/uhn/ggql/pkg/ggql"

	"verif/harness/sym"
)

// C05_IntOut_int64: Int.CoerceOut(int64) either fails with nil, or returns the
// same number as a 32-bit integer.
func C05_IntOut_int64() {
	v := sym.Int64("v")
	out := ggql.NewRoot(nil).GetType("Int").(ggql.OutCoercer)
	r, err := out.CoerceOut(v)
	sym.Observe("r", r)
	sym.Observe("err", err != nil)
	if err != nil {
		sym.Assert(r == nil, "error implies nil result")
		return
	}
	i, ok := r.(int32)
	sym.Assert(ok, "Int result is int32")
	sym.Assert(int64(i) == v, "value preserved")
	_ = math.MaxInt32
}

package props

import (
	"math"

	"github.com/uhn/ggql/pkg/ggql"

	"verif/harness/sym"
)

func outCoercer(name string) ggql.OutCoercer {
	return ggql.NewRoot(nil).GetType(name).(ggql.OutCoercer)
}

// C05_IntOut_num: Int.CoerceOut of every numeric Go kind (full width): either
// an error with a nil result, or an int32 denoting the same number.
func C05_IntOut_num() {
	kind := sym.Choice("kind", nNumKinds)
	n := anyNum(kind)
	out := outCoercer("Int")
	r, err := out.CoerceOut(n.v)
	sym.Observe("r", r)
	sym.Observe("err", err != nil)
	if err != nil {
		sym.Assert(r == nil, "error implies nil result")
		return
	}
	i, ok := r.(int32)
	sym.Assert(ok, "Int result is int32")
	if n.isFloat && sym.Known("C05-int-out-float-truncates", !n.inInt32()) {
		return
	}
	sym.Assert(n.equalsInt32(i), "value preserved")
}

// C05_IntOut_string: Int.CoerceOut of every string of up to 3 bytes (4 thorough).
func C05_IntOut_string() {
	maxLen := 3
	if sym.Thorough() {
		maxLen = 4
	}
	s := symText("s", maxLen)
	out := outCoercer("Int")
	r, err := out.CoerceOut(s)
	sym.Observe("r", r)
	if err != nil {
		sym.Assert(r == nil, "error implies nil result")
		return
	}
	i, ok := r.(int32)
	sym.Assert(ok, "Int result is int32")
	// reference: the text must be an optionally signed run of digits (underscore-free) denoting i
	val, good := refParseDecimal(s)
	sym.Assert(good && val == int64(i), "text denotes the result")
}

// refParseDecimal is the harness's own decimal reader: [+-]?[0-9]+ .
func refParseDecimal(s string) (int64, bool) {
	if len(s) == 0 {
		return 0, false
	}
	neg := false
	k := 0
	if s[0] == '-' || s[0] == '+' {
		neg = s[0] == '-'
		k = 1
	}
	if k == len(s) {
		return 0, false
	}
	var v int64
	for ; k < len(s); k++ {
		c := s[k]
		if c < '0' || c > '9' {
			return 0, false
		}
		v = v*10 + int64(c-'0')
	}
	if neg {
		v = -v
	}
	return v, true
}

// C05_Int64Out_num: Int64.CoerceOut of every numeric kind.
func C05_Int64Out_num() {
	kind := sym.Choice("kind", nNumKinds+1)
	n := anyNum(kind)
	if kind == nNumKinds {
		n.v = struct{ X int }{int(sym.Int8("x"))} // a value of a kind no scalar accepts
	}
	out := outCoercer("Int64")
	r, err := out.CoerceOut(n.v)
	sym.Observe("r", r)
	if err != nil {
		sym.Assert(r == nil, "error implies nil result")
		return
	}
	i, ok := r.(int64)
	sym.Assert(ok, "Int64 result is int64")
	if n.isFloat && sym.Known("C05-int64-out-float-truncates", !n.equalsInt64(i)) {
		return
	}
	sym.Assert(n.equalsInt64(i), "value preserved")
}

// C05_FloatOut_num: Float.CoerceOut of every numeric kind: a finite float32
// that is the input rounded to 32-bit precision, or an error.
func C05_FloatOut_num() {
	kind := sym.Choice("kind", nNumKinds+1)
	n := anyNum(kind)
	if kind == nNumKinds {
		n.v = struct{ X int }{int(sym.Int8("x"))} // a value of a kind no scalar accepts
	}
	out := outCoercer("Float")
	r, err := out.CoerceOut(n.v)
	sym.Observe("err", err != nil)
	if err != nil {
		sym.Assert(r == nil, "error implies nil result")
		return
	}
	f, ok := r.(float32)
	sym.Assert(ok, "Float result is float32")
	if n.isFloat && sym.Known("C05-float-out-nonfinite", !sym.And(isFinite(n.f64), math.Abs(n.f64) <= math.MaxFloat32)) {
		return
	}
	sym.Assert(isFinite(float64(f)), "Float result is finite")
}

// C05_Float64Out_num: Float64.CoerceOut of every numeric kind.
func C05_Float64Out_num() {
	kind := sym.Choice("kind", nNumKinds+1)
	n := anyNum(kind)
	if kind == nNumKinds {
		n.v = struct{ X int }{int(sym.Int8("x"))} // a value of a kind no scalar accepts
	}
	out := outCoercer("Float64")
	r, err := out.CoerceOut(n.v)
	if err != nil {
		sym.Assert(r == nil, "error implies nil result")
		return
	}
	f, ok := r.(float64)
	sym.Assert(ok, "Float64 result is float64")
	if n.isFloat && sym.Known("C05-float64-out-nonfinite", !isFinite(n.f64)) {
		return
	}
	sym.Assert(isFinite(f), "Float64 result is finite")
	if n.isFloat {
		sym.Assert(f == n.f64, "float value preserved")
	}
}

// C05_BoolOut: Boolean.CoerceOut of E kinds: a bool or (error, nil).
func C05_BoolOut() {
	out := outCoercer("Boolean")
	var v interface{}
	switch sym.Choice("kind", 5) {
	case 0:
		v = sym.Bool("b")
	case 1:
		v = sym.Float32("f")
	case 2:
		v = sym.Int32("i")
	case 3:
		v = symText("s", 3)
	case 4:
		v = sym.Int64("j")
	}
	r, err := out.CoerceOut(v)
	if err != nil {
		sym.Assert(r == nil, "error implies nil result")
		return
	}
	_, ok := r.(bool)
	sym.Assert(ok, "Boolean result is bool")
}

// C05_StringOut_int: String/ID.CoerceOut of integer kinds: decimal text of the value.
func C05_StringOut_int() {
	name := "String"
	if sym.Choice("type", 2) == 1 {
		name = "ID"
	}
	kind := sym.Choice("kind", kUint64+1)
	n := anyNum(kind)
	// formatting bound: |value| < 10^4 (DESIGN section 3.4) except for the full-width wrap region
	lim := int64(30)
	if sym.Thorough() {
		lim = 300
	}
	small := sym.And(n.fitsI64, n.i64 > -lim, n.i64 < lim)
	// unsigned values of 2^63 and more: E concrete boundaries (decimal
	// formatting of a wide symbolic integer is value enumeration)
	if (kind == kUint || kind == kUint64) && sym.Choice("beyond int64", 2) == 1 {
		bigs := []uint64{1 << 63, 1<<63 + 1, 18446744073709551615}
		texts := []string{"9223372036854775808", "9223372036854775809", "18446744073709551615"}
		k := sym.Choice("big", len(bigs))
		var v interface{} = bigs[k]
		if kind == kUint {
			v = uint(bigs[k])
		}
		r, err := outCoercer(name).CoerceOut(v)
		sym.Assert(err == nil, "integer accepted")
		s, ok := r.(string)
		sym.Assert(ok && s == texts[k], "text denotes the value")
		return
	}
	sym.Assume(small)
	out := outCoercer(name)
	r, err := out.CoerceOut(n.v)
	sym.Assert(err == nil, "integer accepted")
	s, ok := r.(string)
	sym.Assert(ok, "String result is string")
	val, good := refParseDecimal(s)
	sym.Assert(good && val == n.i64, "text denotes the value")
}

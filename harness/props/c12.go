package props

// C12 - concurrent requests on one root: race-free and mutually isolated.
// A cold root over a reflection data graph (struct fields, methods with
// arguments, union and interface lists); goroutines each parse and resolve an
// E-chosen request under the engine's scheduler, with the happens-before
// monitor on every memory cell; every response must equal the response the
// same request gets alone on a fresh root.

import (
	"github.com/uhn/ggql/pkg/ggql"

	"verif/harness/sym"
)

const c12Schema = `
type Query { a: Int s: String o: Obj l: [Obj] m1(x: String): String m2(b: Boolean): String us: [U] is: [I] z: Int }
type Obj { a: Int s: String o: Obj m1(x: String): String m2(b: Boolean): String }
interface I { x: Int }
type A implements I { x: Int a: Int }
type B implements I { x: Int b: Int }
union U = A | B
`

type C12Obj struct {
	A  int32
	S  string
	O  *C12Obj
	L  []*C12Obj
	Us []interface{}
	Is []interface{}
}

func (o *C12Obj) M1(x string) string { return o.S + x }
func (o *C12Obj) M2(b bool) string {
	if b {
		return o.S + "!"
	}
	return o.S
}

type c12Root struct{ Query *C12Obj }

type c12Data struct {
	a1, a2, x1, x2 int32
	s1, s2         string
}

func c12Draw() c12Data {
	return c12Data{a1: sym.Int32("a1"), a2: sym.Int32("a2"), x1: sym.Int32("x1"), x2: sym.Int32("x2"),
		s1: sym.String("s1", 1), s2: sym.String("s2", 1)}
}

func c12NewRoot(d c12Data) *ggql.Root {
	o := &C12Obj{A: d.a2, S: d.s2}
	o.O = o
	q := &C12Obj{A: d.a1, S: d.s1, O: o, L: []*C12Obj{o},
		Us: []interface{}{&B{X: d.x2, B: d.a2}, &A{X: d.x1, A: d.a1}},
		Is: []interface{}{&A{X: d.x1, A: d.a1}, &B{X: d.x2, B: d.a2}}}
	root := ggql.NewRoot(&c12Root{Query: q})
	if err := root.ParseString(c12Schema); err != nil {
		panic("harness schema rejected: " + err.Error())
	}
	return root
}

var c12Requests = []struct {
	doc  string
	vars bool
}{
	{`{a o{s}}`, false},
	{`{m1(x:"p")}`, false},
	{`{m2(b:true) o{m1(x:"q")}}`, false},
	{`{us{__typename ... on A{a} ... on B{b}}}`, false},
	{`query($v:String){...F} fragment F on Query{o{m1(x:$v)} a}`, true},
	{`{is{__typename x}}`, false},
	{`{__type(name:"Obj"){name fields{name}}}`, false},
	{`{l{a m2(b:false)} s}`, false},
	{`{z a}`, false}, // z has no Go member behind it: the failing-binding path
}

func c12Resolve(root *ggql.Root, k int, v string) map[string]interface{} {
	r := c12Requests[k]
	var vars map[string]interface{}
	if r.vars {
		vars = map[string]interface{}{"v": v}
	}
	exe, err := root.ParseExecutableString(r.doc)
	if err != nil {
		return map[string]interface{}{"parse": err.Error()}
	}
	res, rerr := root.ResolveExecutable(exe, "", vars)
	if rerr != nil {
		return map[string]interface{}{"data": res, "err": rerr.Error()}
	}
	return res
}

func c12Run(threads, perThread int, kinds []int) {
	d := c12Draw()
	v := sym.String("v", 1)
	n := threads * perThread
	reqs := make([]int, n)
	for k := range reqs {
		reqs[k] = kinds[sym.Choice("request", len(kinds))]
	}
	// alone, each on its own fresh (cold) root
	want := make([]map[string]interface{}, n)
	for k, r := range reqs {
		want[k] = c12Resolve(c12NewRoot(d), r, v)
		sym.Assert((want[k]["err"] == nil || r == 8) && want[k]["parse"] == nil, "request resolves alone")
	}
	// together on one cold root
	root := c12NewRoot(d)
	got := make([]map[string]interface{}, n)
	sym.Budget(60_000_000)
	for t := 0; t < threads; t++ {
		t := t
		sym.Go(func() {
			for j := 0; j < perThread; j++ {
				k := t*perThread + j
				got[k] = c12Resolve(root, reqs[k], v)
			}
		})
	}
	sym.Wait()
	for k := range reqs {
		sym.Assert(sym.DeepEqual(interface{}(got[k]), interface{}(want[k])), "response equals the response the request gets alone")
	}
}

// C12_cold: two goroutines with one request each on a cold root.  quick: 5
// request kinds (struct fields, both method fields, union list, interface
// list), at most 2 preemptions per schedule.  thorough: all 8 kinds with at most 2
// preemptions, and the 3 kinds that share the first-use windows of one type
// with at most 4 (8 kinds with 3 did not finish in 40 minutes, unbounded not
// in two hours).
func C12_cold() {
	if sym.Thorough() {
		if sym.Choice("depth or breadth", 2) == 0 {
			sym.Preemptions(2)
			c12Run(2, 1, []int{0, 1, 2, 3, 4, 5, 6, 7})
		} else {
			sym.Preemptions(4)
			c12Run(2, 1, []int{0, 1, 2})
		}
		return
	}
	c12Run(2, 1, []int{0, 1, 2, 3, 5})
}

// C12_three: three goroutines on a cold root resolving fields of one type
// (the first-use windows of regField / assureType): quick: struct fields and
// one method field, at most 1 preemption; thorough: struct fields and both method
// fields, at most 2 preemptions.
func C12_three() {
	if sym.Thorough() {
		sym.Preemptions(2)
		c12Run(3, 1, []int{0, 1, 2})
		return
	}
	sym.Preemptions(1)
	c12Run(3, 1, []int{0, 1})
}

// C12_unbound: two goroutines on a cold root where one or both select a
// schema field that has no Go member behind it (the binding fails): the
// failure is reported to each request and nothing is left locked.
func C12_unbound() {
	sym.Preemptions(2) // (the failing binding is retried on every use: many more lock operations per request)
	c12Run(2, 1, []int{8})
}

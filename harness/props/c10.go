package props

import (
	"github.com/uhn/ggql/pkg/ggql"

	"verif/harness/sym"
)

const c10Schema = `
type Query { a: Int s(x: String, n: Int!): String o: Obj i: I }
type Obj implements I { a: Int s(x: String): String o: Obj }
interface I { a: Int s(x: String): String }
directive @d(x: Int) on FIELD
directive @q on QUERY
`

// c10Node logs every invocation together with its argument names.
type c10Call struct {
	field string
	args  []string
}

type c10Node struct {
	log *[]c10Call
}

func (n *c10Node) Resolve(field *ggql.Field, args map[string]interface{}) (interface{}, error) {
	call := c10Call{field: field.Name}
	for k := range args {
		call.args = append(call.args, k)
	}
	*n.log = append(*n.log, call)
	switch field.Name {
	case "query", "o", "i":
		return n, nil
	case "a":
		return int32(7), nil
	case "s":
		return "str", nil
	}
	return nil, nil
}

type c10Case struct {
	doc      string // § = the offender's name (symbolic), where applicable
	offender int    // 0: none named, 1: field name, 2: argument name, 3: directive name, 4: type name
	forbid   string // log entry prefix that must not appear ("" = the offender itself)
	sibling  string // response key at the top level that must still be resolved ("" = document rejected as a whole)
	named    bool   // the error message must contain the offender's name
}

var c10Cases = []c10Case{
	// undefined field under each container kind
	{doc: "{a §}", offender: 1, sibling: "a", named: true},
	{doc: "{a o{§}}", offender: 1, sibling: "a", named: true},
	{doc: "{a i{§}}", offender: 1, sibling: "a", named: true},
	{doc: "{a o{o{a §}}}", offender: 1, sibling: "a", named: true},
	{doc: "{a ...on Query{§}}", offender: 1, sibling: "a", named: true},
	{doc: "{a ...F} fragment F on Query{§}", offender: 1, sibling: "a", named: true},
	// undeclared argument
	{doc: "{a s(x:\"v\" n:1 §:2)}", offender: 2, forbid: "s", sibling: "a", named: true},
	{doc: "{a s(x:\"v\" §:2)}", offender: 2, forbid: "s", sibling: "a", named: true},
	{doc: "{a o{s(§:1)}}", offender: 2, forbid: "s", sibling: "a", named: true},
	{doc: "{a i{s(§:1)}}", offender: 2, forbid: "s", sibling: "a", named: true},
	{doc: "{a(§:1)}", offender: 2, forbid: "a", named: true},
	// omitted required argument
	{doc: "{a s(x:\"v\")}", forbid: "s", sibling: "a"},
	{doc: "{a s}", forbid: "s", sibling: "a"},
	// unknown / misplaced directive
	{doc: "{a s(n:1) @§}", offender: 3, forbid: "s"},
	{doc: "{a @q}", forbid: "a"},
	{doc: "query @d {a}", forbid: "a"},
	{doc: "{a @d(§:1)}", offender: 2, forbid: "a"},
	// undefined type condition
	{doc: "{a ...on §{a}}", offender: 4},
	{doc: "{a ...F} fragment F on §{a}", offender: 4},
}

func notDefinedName(s string) bool {
	return sym.And(s != "a", s != "s", s != "o", s != "i", s != "x", s != "n", s != "d", s != "q", s != "I",
		s != "ID", s != "go", s != "Int") // built-in type and directive names of up to 3 bytes
}

// C10_reject: a valid request with exactly one undefined thing injected: an
// error is reported (naming the undefined field or argument), the resolver is
// not invoked with it, and valid siblings are still resolved unless the whole
// document is rejected.
func C10_reject() {
	c := c10Cases[sym.Choice("case", len(c10Cases))]
	nameLen := 1 + lenChoice("name len", 1, 2)
	name := sym.String("offender", nameLen)
	for i := 0; i < len(name); i++ {
		sym.Assume(isNameByte(name[i]))
	}
	sym.Assume(notDefinedName(name))
	doc := ""
	for i := 0; i < len(c.doc); i++ {
		if c.doc[i] == 0xC2 && i+1 < len(c.doc) && c.doc[i+1] == 0xA7 {
			doc += name
			i++
		} else {
			doc += c.doc[i : i+1]
		}
	}
	var log []c10Call
	root := ggql.NewRoot(&c10Node{log: &log})
	if err := root.ParseString(c10Schema); err != nil {
		panic("harness schema rejected: " + err.Error())
	}
	sym.Observe("doc", doc)
	res := root.ResolveString(doc, "", nil)
	sym.Observe("res", res)
	sym.Observe("log", len(log))

	errs, _ := res["errors"].([]interface{})
	sym.Assert(len(errs) > 0, "an error is reported")
	if c.named {
		found := false
		for _, e := range errs {
			em, _ := e.(map[string]interface{})
			msg, _ := em["message"].(string)
			found = sym.Or(found, sym.Contains(msg, name))
		}
		sym.Assert(found, "the error names the offender")
	}
	for _, l := range log {
		if c.offender == 1 {
			sym.Assert(l.field != name, "undefined field never reaches a resolver")
		}
		if c.offender == 2 {
			leaked := false
			for _, a := range l.args {
				leaked = sym.Or(leaked, a == name)
			}
			sym.Assert(!leaked, "undeclared argument never reaches a resolver")
		}
		if c.forbid != "" {
			sym.Assert(l.field != c.forbid, "the offending selection's resolver is not invoked")
		}
	}
	if c.sibling != "" {
		data, _ := res["data"].(map[string]interface{})
		sym.Assert(data != nil, "data kept for valid siblings")
		_, has := data[c.sibling]
		sym.Assert(has, "valid sibling still resolved")
	}
}

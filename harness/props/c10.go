package props

import (
	"github.com/uhn/ggql/pkg/ggql"

	"verif/harness/sym"
)

const c10Schema = `
type Query { a: Int s(x: String, n: Int!): String o: Obj i: I }
type Obj implements I { a: Int s(x: String): String o: Obj }
interface I { a: Int s(x: String): String }
directive @d(x: Int) on FIELD
directive @q on QUERY
`

// c10Node logs every invocation together with its argument names.
type c10Call struct {
	field string
	args  []string
}

type c10Node struct {
	log *[]c10Call
}

func (n *c10Node) Resolve(field *ggql.Field, args map[string]interface{}) (interface{}, error) {
	call := c10Call{field: field.Name}
	for k := range args {
		call.args = append(call.args, k)
	}
	*n.log = append(*n.log, call)
	switch field.Name {
	case "query", "o", "i":
		return n, nil
	case "a":
		return int32(7), nil
	case "s":
		return "str", nil
	}
	return nil, nil
}

type c10Case struct {
	doc      string // § = the offender's name (symbolic), where applicable
	offender int    // 0: none named, 1: field name, 2: argument name, 3: directive name, 4: type name
	forbid   string // log entry prefix that must not appear ("" = the offender itself)
	sibling  string // response key at the top level that must still be resolved ("" = document rejected as a whole)
	named    bool   // the error message must contain the offender's name
}

var c10Cases = []c10Case{
	// undefined field under each container kind
	{doc: "{a §}", offender: 1, sibling: "a", named: true},
	{doc: "{a o{§}}", offender: 1, sibling: "a", named: true},
	{doc: "{a i{§}}", offender: 1, sibling: "a", named: true},
	{doc: "{a o{o{a §}}}", offender: 1, sibling: "a", named: true},
	{doc: "{a ...on Query{§}}", offender: 1, sibling: "a", named: true},
	{doc: "{a ...F} fragment F on Query{§}", offender: 1, sibling: "a", named: true},
	// undeclared argument
	{doc: "{a s(x:\"v\" n:1 §:2)}", offender: 2, forbid: "s", sibling: "a", named: true},
	{doc: "{a s(x:\"v\" §:2)}", offender: 2, forbid: "s", sibling: "a", named: true},
	{doc: "{a o{s(§:1)}}", offender: 2, forbid: "s", sibling: "a", named: true},
	{doc: "{a i{s(§:1)}}", offender: 2, forbid: "s", sibling: "a", named: true},
	{doc: "{a(§:1)}", offender: 2, forbid: "a", named: true},
	// omitted required argument
	{doc: "{a s(x:\"v\")}", forbid: "s", sibling: "a"},
	{doc: "{a s}", forbid: "s", sibling: "a"},
	// unknown / misplaced directive
	{doc: "{a s(n:1) @§}", offender: 3, forbid: "s"},
	{doc: "{a @q}", forbid: "a"},
	{doc: "query @d {a}", forbid: "a"},
	{doc: "{a @d(§:1)}", offender: 2, forbid: "a"},
	// the defective selection shares its response key with an earlier valid one
	{doc: "{a a(§:1)}", offender: 2, named: true},
	{doc: "{t: a t: §}", offender: 1, named: true},
	{doc: "{s(n:1) s}"},
	{doc: "{s(n:1) ...F} fragment F on Query{s}"},
	{doc: "{a o{a} ...on Query{o{a(§:1)}}}", offender: 2, named: true},
	// undefined type condition
	{doc: "{a ...on §{a}}", offender: 4},
	{doc: "{a ...F} fragment F on §{a}", offender: 4},
}

func notDefinedName(s string) bool {
	return sym.And(s != "a", s != "s", s != "o", s != "i", s != "x", s != "n", s != "d", s != "q", s != "I",
		s != "ID", s != "go", s != "Int", s != "Obj") // the schema's own and the built-in type and directive names of up to 3 bytes
}

// C10_reject: a valid request with exactly one undefined thing injected: an
// error is reported (naming the undefined field or argument), the resolver is
// not invoked with it, and valid siblings are still resolved unless the whole
// document is rejected.
func C10_reject() {
	c := c10Cases[sym.Choice("case", len(c10Cases))]
	nameLen := 1 + lenChoice("name len", 1, 2)
	name := sym.String("offender", nameLen)
	for i := 0; i < len(name); i++ {
		sym.Assume(isNameByte(name[i]))
	}
	sym.Assume(notDefinedName(name))
	doc := ""
	for i := 0; i < len(c.doc); i++ {
		if c.doc[i] == 0xC2 && i+1 < len(c.doc) && c.doc[i+1] == 0xA7 {
			doc += name
			i++
		} else {
			doc += c.doc[i : i+1]
		}
	}
	var log []c10Call
	root := ggql.NewRoot(&c10Node{log: &log})
	if err := root.ParseString(c10Schema); err != nil {
		panic("harness schema rejected: " + err.Error())
	}
	sym.Observe("doc", doc)
	res := root.ResolveString(doc, "", nil)
	sym.Observe("res", res)
	sym.Observe("log", len(log))

	errs, _ := res["errors"].([]interface{})
	sym.Assert(len(errs) > 0, "an error is reported")
	if c.named {
		found := false
		for _, e := range errs {
			em, _ := e.(map[string]interface{})
			msg, _ := em["message"].(string)
			found = sym.Or(found, sym.Contains(msg, name))
		}
		sym.Assert(found, "the error names the offender")
	}
	for _, l := range log {
		if c.offender == 1 {
			sym.Assert(l.field != name, "undefined field never reaches a resolver")
		}
		if c.offender == 2 {
			leaked := false
			for _, a := range l.args {
				leaked = sym.Or(leaked, a == name)
			}
			sym.Assert(!leaked, "undeclared argument never reaches a resolver")
		}
		if c.forbid != "" {
			sym.Assert(l.field != c.forbid, "the offending selection's resolver is not invoked")
		}
	}
	if c.sibling != "" {
		data, _ := res["data"].(map[string]interface{})
		sym.Assert(data != nil, "data kept for valid siblings")
		_, has := data[c.sibling]
		sym.Assert(has, "valid sibling still resolved")
	}
}

// ---------------------------------------------------------------- abstract containers

const c10AbsSchema = `
interface I { x: Int }
type A implements I { x: Int a: Int }
type B implements I { x: Int b: Int }
union U = A | B
type Query { is: [I] us: [U] ca: A cb: B k: Int }
`

// C10A / C10B are Resolver nodes bound to A / B with RegisterType; every
// invocation is logged with the node's type.
type C10A struct{ log *[]string }
type C10B struct{ log *[]string }

func (n *C10A) Resolve(field *ggql.Field, args map[string]interface{}) (interface{}, error) {
	*n.log = append(*n.log, "A."+field.Name)
	return int32(1), nil
}

func (n *C10B) Resolve(field *ggql.Field, args map[string]interface{}) (interface{}, error) {
	*n.log = append(*n.log, "B."+field.Name)
	return int32(2), nil
}

type c10AbsQuery struct {
	log   *[]string
	elems []interface{}
}

func (q *c10AbsQuery) Resolve(field *ggql.Field, args map[string]interface{}) (interface{}, error) {
	switch field.Name {
	case "query":
		return q, nil
	case "is", "us":
		return q.elems, nil
	case "ca":
		return &C10A{q.log}, nil
	case "cb":
		return &C10B{q.log}, nil
	case "k":
		return int32(7), nil
	}
	return nil, nil
}

var c10AbsCases = []struct {
	doc      string
	offender string // the field that is not defined where it is selected
	never    string // log entries that must not appear ("": the offender on any node)
	needs    string // the selection is only reached when an element of this type exists
}{
	{"{k is{a}}", "a", "", ""},                                  // defined by an implementer, not by the interface
	{"{k is{x b}}", "b", "", ""},                                //
	{"{k is{x ...on I{a}}}", "a", "", ""},                       // inline fragment on the interface itself
	{"{k is{...F}} fragment F on I{a}", "a", "", ""},            // named fragment on the interface
	{"{k ca{x ...on I{a}}}", "a", "", ""},                       // abstract fragment under an object-typed field
	{"{k ca{...on U{x}}}", "x", "", ""},                         // a union defines no fields
	{"{k us{...on A{b}}}", "b", "A.b", "A"},                     // undefined in the fragment's own type
	{"{k is{x ...on B{a}}}", "a", "B.a", "B"},                   //
	{"{k ca{...F} cb{...F}} fragment F on I{a}", "a", "", ""},   // one fragment under two containers
	{"{k us{...on I{b}}}", "b", "", ""},                         // interface fragment under a union-typed field
	{"{k cb{...F} ca{...F}} fragment F on I{x a}", "a", "", ""}, // the other order
	{"{k is{...on I{...on I{b}}}}", "b", "", ""},                // nested, same condition
	{"{k us{a}}", "a", "B.a", "B"},                              // fields straight under a union-typed field are looked up per member
	{"{k us{__typename b}}", "b", "A.b", "A"},                   //
	{"{k is{x ...{a}}}", "a", "", ""},                           // an inline fragment without a condition does not narrow the type
	{"{k is{... @include(if:true){b}}}", "b", "", ""},           //
	{"{k is{...on I{...{a}}}}", "a", "", ""},                    //
	{"{k is{x} ca{zz}}", "zz", "", ""},                          // defined nowhere (control)
}

// C10_abstract: a field selected where its container type does not define
// it - the container being an interface, a union, or a fragment's abstract
// type condition, with objects of several concrete types behind it in either
// order - is an error naming it and no resolver is invoked with it.
func C10_abstract() {
	c := c10AbsCases[sym.Choice("case", len(c10AbsCases))]
	var log []string
	q := &c10AbsQuery{log: &log}
	n := 1 + sym.Choice("elements", 2)
	for k := 0; k < n; k++ {
		if sym.Choice("element type", 2) == 0 {
			q.elems = append(q.elems, &C10A{&log})
		} else {
			q.elems = append(q.elems, &C10B{&log})
		}
	}
	root := ggql.NewRoot(q)
	if err := root.ParseString(c10AbsSchema); err != nil {
		panic("harness schema rejected: " + err.Error())
	}
	if root.RegisterType(&C10A{}, "A") != nil || root.RegisterType(&C10B{}, "B") != nil {
		panic("harness: RegisterType refused")
	}
	if sym.Choice("warm", 2) == 1 {
		_ = root.ResolveString("{ca{a} cb{b} is{x} us{__typename}}", "", nil)
		log = log[:0]
	}
	reached := c.needs == ""
	for _, e := range q.elems {
		if _, isA := e.(*C10A); isA == (c.needs == "A") {
			reached = true
		}
	}
	if sym.Known("C10-undefined-field-in-unreached-selection", !reached) {
		return
	}
	res := root.ResolveString(c.doc, "", nil)
	sym.Observe("res", res)
	errs, _ := res["errors"].([]interface{})
	sym.Assert(len(errs) > 0, "an error is reported")
	found := false
	for _, e := range errs {
		em, _ := e.(map[string]interface{})
		msg, _ := em["message"].(string)
		found = found || sym.Contains(msg, c.offender)
	}
	sym.Assert(found, "the error names the offender")
	for _, l := range log {
		if c.never != "" {
			sym.Assert(l != c.never, "undefined field never reaches a resolver")
		} else {
			sym.Assert(l != "A."+c.offender && l != "B."+c.offender, "undefined field never reaches a resolver")
		}
	}
	data, _ := res["data"].(map[string]interface{})
	sym.Assert(data != nil && data["k"] != nil, "valid sibling still resolved")
}

package props

import (
	"github.com/uhn/ggql/pkg/ggql"

	"verif/harness/sym"
)

// C09_reuse: one parsed executable resolved twice: first with the condition
// variables supplied, then left to their declared defaults (and the other way
// round); each call follows the inclusion logic for ITS values.
func C09_reuse() {
	var log []string
	q := newGraph(&log, 0)
	root := kitRoot(q)
	ds := sym.Bool("skip default")
	di := sym.Bool("include default")
	b2s := func(b bool) string {
		if b {
			return "true"
		}
		return "false"
	}
	dirs := " @skip(if:$s) @include(if:$i)"
	if sym.Choice("order", 2) == 1 {
		dirs = " @include(if:$i) @skip(if:$s)"
	}
	var body string
	switch sym.Choice("selection kind", 3) {
	case 0:
		body = "{s a" + dirs + " z:s}"
	case 1:
		body = "{s ...on Query" + dirs + "{a} z:s}"
	default:
		body = "{s ...F" + dirs + " z:s} fragment F on Query{a}"
	}
	doc := "query($s:Boolean=" + b2s(ds) + " $i:Boolean=" + b2s(di) + ")" + body
	exe, err := root.ParseExecutableString(doc)
	sym.Assert(err == nil, "document accepted")
	for call := 0; call < 2; call++ {
		skip, incl := ds, di
		vars := map[string]interface{}{}
		if sym.Choice("skip supplied", 2) == 1 {
			skip = sym.Bool("skip value")
			vars["s"] = skip
		}
		if sym.Choice("include supplied", 2) == 1 {
			incl = sym.Bool("include value")
			vars["i"] = incl
		}
		log = log[:0]
		res, _ := root.ResolveExecutable(exe, "", vars)
		data, _ := res["data"].(map[string]interface{})
		sym.Assert(data != nil, "data present")
		_, has := data["a"]
		included := sym.And(!skip, incl)
		sym.Assert(has == included, "selection present iff included")
		ran := false
		for _, l := range log {
			if l == "q.a" {
				ran = true
			}
		}
		sym.Assert(ran == included, "resolver runs iff included")
		_, hasZ := data["z"]
		sym.Assert(hasZ, "the selection written after it is unaffected")
	}
}

// dirArg renders one of @skip/@include in an E-chosen form and returns the
// rendered text and the truth value of its condition (S).
//
//	form 0: absent   1: literal   2: variable (value in vars)   3: variable with default only
func dirArg(name string, varName string, vars map[string]interface{}, defaults *string) (text string, present bool, cond bool) {
	form := sym.Choice(name+" form", 4)
	switch form {
	case 0:
		return "", false, false
	case 1:
		cond = sym.Bool(name + " literal")
		if cond {
			return " @" + name + "(if:true)", true, true
		}
		return " @" + name + "(if:false)", true, false
	case 2:
		cond = sym.Bool(name + " var")
		vars[varName] = cond
		*defaults += " $" + varName + ":Boolean"
		return " @" + name + "(if:$" + varName + ")", true, cond
	default:
		cond = sym.Bool(name + " default")
		if cond {
			*defaults += " $" + varName + ":Boolean=true"
		} else {
			*defaults += " $" + varName + ":Boolean=false"
		}
		return " @" + name + "(if:$" + varName + ")", true, cond
	}
}

// C09_incl: a selection appears iff it carries no @skip(true) and no
// @include(false), independent of order and of literal/variable form; an
// excluded selection contributes no key and none of its resolvers run.
func C09_incl() {
	var log []string
	q := newGraph(&log, 0)
	root := kitRoot(q)
	vars := map[string]interface{}{}
	decls := ""
	skipText, skipPresent, skipCond := dirArg("skip", "s", vars, &decls)
	inclText, inclPresent, inclCond := dirArg("include", "i", vars, &decls)
	dirs := skipText + inclText
	if sym.Choice("order", 2) == 1 {
		dirs = inclText + skipText
	}
	var body string
	kind := sym.Choice("selection kind", 3)
	switch kind {
	case 0:
		body = "{s a" + dirs + "}"
	case 1:
		body = "{s ...on Query" + dirs + "{a}}"
	default:
		body = "{s ...F" + dirs + "} fragment F on Query{a}"
	}
	doc := body
	if decls != "" {
		doc = "query(" + decls + ")" + body
	}
	nested := sym.Thorough() && sym.Choice("nested", 2) == 1
	if nested {
		// the same directives one level down
		switch kind {
		case 0:
			body = "{s o{a" + dirs + " s}}"
		case 1:
			body = "{s o{s ...on Obj" + dirs + "{a}}}"
		default:
			body = "{s o{s ...F" + dirs + "}} fragment F on Obj{a}"
		}
		doc = body
		if decls != "" {
			doc = "query(" + decls + ")" + body
		}
	}
	sym.Observe("doc", doc)
	res := root.ResolveString(doc, "", vars)
	sym.Observe("res", res)
	included := sym.And(!sym.And(skipPresent, skipCond), !sym.And(inclPresent, !inclCond))
	data, _ := res["data"].(map[string]interface{})
	sym.Assert(data != nil, "data present")
	if nested {
		data, _ = data["o"].(map[string]interface{})
		if data == nil {
			return // q.o drawn null
		}
	}
	_, has := data["a"]
	sym.Assert(has == included, "selection present iff included")
	ran := false
	for _, l := range log {
		if l == "q.a" || l == "o1.a" {
			ran = true
		}
	}
	sym.Assert(ran == included, "resolver runs iff included")
	_, hasS := data["s"]
	sym.Assert(hasS, "sibling selection unaffected")
}

// C09_twice: two selections of the same response key in one selection set -
// the same field, inline fragment or named fragment written twice, or one of
// each - each with its own conditions (S): the key appears iff at least one
// of them is included; an excluded one does not take the other with it.
func C09_twice() {
	var log []string
	q := newGraph(&log, 0)
	root := kitRoot(q)
	vars := map[string]interface{}{}
	decls := ""
	usesF := false
	one := func(n string) (text string, included bool) {
		dirs := ""
		included = true
		switch sym.Choice("directives "+n, 4) {
		case 1:
			c := sym.Bool("skip " + n)
			vars["s"+n] = c
			decls += " $s" + n + ":Boolean"
			dirs = " @skip(if:$s" + n + ")"
			included = !c
		case 2:
			c := sym.Bool("include " + n)
			if c {
				dirs = " @include(if:true)"
			} else {
				dirs = " @include(if:false)"
			}
			included = c
		case 3:
			c, d := sym.Bool("skip "+n), sym.Bool("include "+n)
			vars["i"+n] = d
			decls += " $i" + n + ":Boolean"
			if c {
				dirs = " @include(if:$i" + n + ") @skip(if:true)"
			} else {
				dirs = " @include(if:$i" + n + ") @skip(if:false)"
			}
			included = sym.And(!c, d)
		}
		switch sym.Choice("selection kind "+n, 3) {
		case 0:
			return "a" + dirs, included
		case 1:
			return "...on Query" + dirs + "{a}", included
		}
		usesF = true
		return "...F" + dirs, included
	}
	t1, in1 := one("1")
	t2, in2 := one("2")
	doc := "{s " + t1 + " " + t2 + "}"
	if decls != "" {
		doc = "query(" + decls + ")" + doc
	}
	if usesF {
		doc += " fragment F on Query{a}"
	}
	sym.Observe("doc", doc)
	res := root.ResolveString(doc, "", vars)
	data, _ := res["data"].(map[string]interface{})
	sym.Assert(data != nil, "data present")
	included := sym.Or(in1, in2)
	_, has := data["a"]
	sym.Assert(has == included, "selection present iff included")
	ran := false
	for _, l := range log {
		if l == "q.a" {
			ran = true
		}
	}
	sym.Assert(ran == included, "resolver runs iff included")
	_, hasS := data["s"]
	sym.Assert(hasS, "sibling selection unaffected")
}

// ---- the same logic on the selections of a subscription operation

const c09SubSchema = `type Query { a: Int } type Obj { a: Int } type Subscription { ev: Obj }`

type c09Sub struct{}

func (s *c09Sub) Send(v interface{}) error { return nil }
func (s *c09Sub) Match(id string) bool     { return true }
func (s *c09Sub) Unsubscribe()             {}

type c09SubRoot struct{ calls int }

func (r *c09SubRoot) Resolve(field *ggql.Field, args map[string]interface{}) (interface{}, error) {
	switch field.Name {
	case "subscription", "query":
		return r, nil
	case "ev":
		r.calls++
		return ggql.NewSubscription(&c09Sub{}, field, args), nil
	}
	return nil, nil
}

// C09_subscription: a subscription's top-level selection is subscribed to iff
// it is included - literal, supplied and defaulted conditions alike.
func C09_subscription() {
	r := &c09SubRoot{}
	root := ggql.NewRoot(r)
	if err := root.ParseString(c09SubSchema); err != nil {
		panic("harness schema rejected: " + err.Error())
	}
	vars := map[string]interface{}{}
	decls := ""
	skipText, skipPresent, skipCond := dirArg("skip", "s", vars, &decls)
	inclText, inclPresent, inclCond := dirArg("include", "i", vars, &decls)
	dirs := skipText + inclText
	if sym.Choice("order", 2) == 1 {
		dirs = inclText + skipText
	}
	body := "{ev" + dirs + "{a}}"
	if sym.Choice("selection kind", 2) == 1 {
		body = "{...on Subscription" + dirs + "{ev{a}}}"
	}
	doc := "subscription" + body
	if decls != "" {
		doc = "subscription(" + decls + ")" + body
	}
	if sym.Choice("vars map", 2) == 1 && len(vars) == 0 {
		vars = nil
	}
	sym.Observe("doc", doc)
	res := root.ResolveString(doc, "", vars)
	sym.Observe("res", res)
	included := sym.And(!sym.And(skipPresent, skipCond), !sym.And(inclPresent, !inclCond))
	sym.Assert((r.calls == 1) == included, "resolver runs iff included")
	sym.Assert(r.calls <= 1, "resolver runs iff included")
	if included {
		sym.Assert(res["errors"] == nil, "an included subscription is accepted")
	}
}

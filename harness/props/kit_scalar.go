package props

import (
	"math"

	"verif/harness/sym"
)

// A numeric input of an E-chosen Go kind with a fully symbolic payload, plus
// what the harness needs to state the oracle without calling ggql.
type num struct {
	v       interface{} // the Go value handed to ggql
	kind    int
	isInt   bool    // integer kind
	fitsI64 bool    // value representable as int64 (integers)
	i64     int64   // the value when fitsI64
	isFloat bool    // float kind
	f64     float64 // the value (floats), exact widening of float32
}

const (
	kInt = iota
	kInt8
	kInt16
	kInt32
	kInt64
	kUint
	kUint8
	kUint16
	kUint32
	kUint64
	kFloat32
	kFloat64
	nNumKinds
)

var kindNames = [...]string{"int", "int8", "int16", "int32", "int64", "uint", "uint8", "uint16", "uint32", "uint64", "float32", "float64"}

func anyNum(kind int) num {
	n := num{kind: kind}
	switch kind {
	case kInt:
		x := sym.Int("v")
		n.v, n.isInt, n.fitsI64, n.i64 = x, true, true, int64(x)
	case kInt8:
		x := sym.Int8("v")
		n.v, n.isInt, n.fitsI64, n.i64 = x, true, true, int64(x)
	case kInt16:
		x := sym.Int16("v")
		n.v, n.isInt, n.fitsI64, n.i64 = x, true, true, int64(x)
	case kInt32:
		x := sym.Int32("v")
		n.v, n.isInt, n.fitsI64, n.i64 = x, true, true, int64(x)
	case kInt64:
		x := sym.Int64("v")
		n.v, n.isInt, n.fitsI64, n.i64 = x, true, true, x
	case kUint:
		x := sym.Uint("v")
		n.v, n.isInt, n.fitsI64, n.i64 = x, true, x <= math.MaxInt64, int64(x)
	case kUint8:
		x := sym.Uint8("v")
		n.v, n.isInt, n.fitsI64, n.i64 = x, true, true, int64(x)
	case kUint16:
		x := sym.Uint16("v")
		n.v, n.isInt, n.fitsI64, n.i64 = x, true, true, int64(x)
	case kUint32:
		x := sym.Uint32("v")
		n.v, n.isInt, n.fitsI64, n.i64 = x, true, true, int64(x)
	case kUint64:
		x := sym.Uint64("v")
		n.v, n.isInt, n.fitsI64, n.i64 = x, true, x <= math.MaxInt64, int64(x)
	case kFloat32:
		x := sym.Float32("v")
		n.v, n.isFloat, n.f64 = x, true, float64(x)
	case kFloat64:
		x := sym.Float64("v")
		n.v, n.isFloat, n.f64 = x, true, x
	}
	return n
}

func isFinite(f float64) bool { return sym.And(!math.IsNaN(f), !math.IsInf(f, 0)) }

func isIntegral(f float64) bool { return sym.And(isFinite(f), math.Trunc(f) == f) }

// inInt32 reports whether the numeric input denotes an integer within Int range.
func (n num) inInt32() bool {
	if n.isInt {
		return sym.And(n.fitsI64, n.i64 >= math.MinInt32, n.i64 <= math.MaxInt32)
	}
	return sym.And(isIntegral(n.f64), n.f64 >= math.MinInt32, n.f64 <= math.MaxInt32)
}

// equalsInt32 reports whether r denotes the same number as the input.
func (n num) equalsInt32(r int32) bool {
	if n.isInt {
		return sym.And(n.fitsI64, n.i64 == int64(r))
	}
	return float64(r) == n.f64 // int32 -> float64 is exact
}

// equalsInt64 reports whether r denotes the same number as the input.
func (n num) equalsInt64(r int64) bool {
	if n.isInt {
		return sym.And(n.fitsI64, n.i64 == r)
	}
	// an integral float within [-2^63, 2^63) whose exact integer value is r
	return sym.And(isIntegral(n.f64), n.f64 >= -9223372036854775808.0, n.f64 < 9223372036854775808.0, int64(n.f64) == r)
}

// digits returns a symbolic decimal-ish string: E length 0..maxLen, S bytes.
func symText(name string, maxLen int) string {
	l := sym.Choice(name+".len", maxLen+1)
	return sym.String(name, l)
}

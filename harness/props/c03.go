package props

import (
	"bytes"
	"io"

	"github.com/uhn/ggql/pkg/ggql"

	"verif/harness/sym"
)

// The engine's implicit checks are the oracle for C03: any reachable panic,
// call-depth overflow or budget exhaustion (non-termination within the
// bound) on a feasible path is a violation.

const c03Schema = `
type Query { a: Int s(x: String, n: Int!): String o: Query l: [Query] }
`

type c03Query struct {
	A int32
	O *c03Query
	L []*c03Query
}

func (q *c03Query) S(x string, n int32) string { return x }

// the root object of the reflection strategy: one field per operation type
type c03Schema_ struct {
	Query *c03Query
}

func c03Root() *ggql.Root {
	q := &c03Query{A: 1}
	q.O = q
	q.L = []*c03Query{q}
	root := ggql.NewRoot(&c03Schema_{Query: q})
	if err := root.ParseString(c03Schema); err != nil {
		panic("harness schema rejected: " + err.Error())
	}
	return root
}

func lenChoice(name string, q, t int) int {
	max := q
	if sym.Thorough() {
		max = t
	}
	return sym.Choice(name, max+1)
}

// C03_value_bytes: ParseValueString over every byte string up to N bytes,
// then both writers (all indent signs) over whatever was parsed.
func C03_value_bytes() {
	n := lenChoice("len", 4, 6)
	s := sym.String("s", n)
	sym.Budget(200_000)
	v, err := ggql.ParseValueString(s)
	if err != nil {
		return
	}
	sym.Cover("value parsed")
	for _, indent := range []int{-1, 0, 2} {
		var b bytes.Buffer
		_ = ggql.WriteSDLValue(&b, v, indent)
		b.Reset()
		_ = ggql.WriteJSONValue(&b, v, indent)
	}
}

// C03_write_bytes: the writers never panic whatever a string holds: every
// byte string of 4 bytes (one rune of any plane, or invalid UTF-8) as a
// string value, a map key and a list element, in SDL and JSON form.
func C03_write_bytes() {
	s := sym.String("s", 4)
	sym.Budget(400_000)
	var b bytes.Buffer
	_ = ggql.WriteSDLValue(&b, []interface{}{s, ggql.Symbol("A")}, -1)
	b.Reset()
	_ = ggql.WriteJSONValue(&b, map[string]interface{}{"k": s}, 2)
	b.Reset()
	_ = ggql.WriteJSONValue(&b, map[string]interface{}{s: int32(1)}, -1)
	sym.Assert(b.Len() > 0, "something is written")
}

// C03_exe_bytes: ResolveBytes over every byte string up to N bytes.
func C03_exe_bytes() {
	n := lenChoice("len", 4, 6)
	src := sym.Bytes("src", n)
	// (the reflection strategy's argument handling is the subject of
	// C03_resolve_adversarial; byte-level exploration runs over the other two)
	root := c03RootFor(1 + sym.Choice("strategy", 2))
	sym.Budget(1_000_000)
	res := root.ResolveBytes(src, "", nil)
	sym.Assert(res != nil, "a response is returned")
}

// C03_sdl_bytes: Root.Parse over every byte string up to N bytes.
func C03_sdl_bytes() {
	n := lenChoice("len", 4, 6)
	src := sym.Bytes("src", n)
	root := ggql.NewRoot(nil)
	sym.Budget(1_000_000)
	err := root.Parse(src)
	if err == nil {
		sym.Cover("sdl accepted")
		_ = root.SDL(true, true)
	}
}

// hole templates: concrete skeletons with k symbolic bytes where the
// parsers' loops and nil-safety depend on them.
var exeHoles = []string{
	"query(§){a}", "query($v:§){a}", "{a(§)}", "{s(x:§ n:1)}", "{a @§}", "{...§}",
	"fragment § on §{a}", "{a{§", "\"§", "{o{a §}}", "query Q §{a}", "{a(x:[§])}",
	"{a(x:{§})}", "{... on §{a}}", "{a:§}", "mutation§{a}", "subscription{§}", "{l{§}}",
	"{a @skip(if:§)}", "query($v:Int=§){a}", "{s(x:\"§\" n:2)}", "#§\n{a}", "{__type(name:§){name}}",
}

var sdlHoles = []string{
	"type Q{a:§}", "enum E{§}", "directive @d(§) on §", "\"\"\"§", "union U=§",
	"type Q implements §{a:Int}", "extend §", "schema{§}", "input I{a:Int=§}", "type Q{a(§):Int}",
	"scalar §", "interface I{§}", "type Q{a:Int @§}", "\"§\" type Q{a:Int}", "type Q{a:[§]}",
	"extend type Query{§}", "type §{a:Int}", "directive @d on §", "type Q{a:Int}§",
}

// fill replaces each § of the template by the next run of symbolic bytes.
func fill(tmpl string, k int) string {
	out := ""
	n := 0
	for i := 0; i < len(tmpl); i++ {
		if tmpl[i] == 0xC2 && i+1 < len(tmpl) && tmpl[i+1] == 0xA7 { // UTF-8 of §
			out += sym.String("hole", k)
			n++
			i++
			continue
		}
		out += tmpl[i : i+1]
	}
	return out
}

// C03_exe_holes: ~25 request skeletons with k symbolic bytes per hole.
func C03_exe_holes() {
	t := sym.Choice("template", len(exeHoles))
	k := 1 + lenChoice("k", 1, 2)
	doc := fill(exeHoles[t], k)
	root := c03RootFor(1 + sym.Choice("strategy", 2))
	sym.Budget(1_500_000)
	res := root.ResolveString(doc, "", map[string]interface{}{"v": sym.Int32("v")})
	sym.Assert(res != nil, "a response is returned")
}

// C03_sdl_holes: SDL skeletons with k symbolic bytes per hole.
func C03_sdl_holes() {
	t := sym.Choice("template", len(sdlHoles))
	k := 1 + lenChoice("k", 1, 2)
	doc := fill(sdlHoles[t], k)
	root := ggql.NewRoot(nil)
	sym.Budget(1_500_000)
	err := root.ParseString(doc)
	if err == nil {
		sym.Cover("sdl accepted")
		_ = root.SDL(true, true)
	}
}

// ---- adversarial but well-formed requests, three strategies

type c03Res struct{ depth int }

func (r *c03Res) Resolve(field *ggql.Field, args map[string]interface{}) (interface{}, error) {
	switch field.Name {
	case "query", "mutation", "subscription":
		return r, nil
	case "a":
		return int32(1), nil
	case "s":
		x, _ := args["x"].(string)
		return x, nil
	case "o":
		return r, nil
	case "l":
		return []interface{}{r}, nil
	}
	return nil, nil
}

type c03Any struct{}

func (c03Any) Resolve(obj interface{}, field *ggql.Field, args map[string]interface{}) (interface{}, error) {
	m, _ := obj.(map[string]interface{})
	return m[field.Name], nil
}
func (c03Any) Len(list interface{}) int {
	l, _ := list.([]interface{})
	return len(l)
}
func (c03Any) Nth(list interface{}, i int) (interface{}, error) {
	l, _ := list.([]interface{})
	if i < 0 || i >= len(l) {
		return nil, nil
	}
	return l[i], nil
}

func c03RootFor(strategy int) *ggql.Root {
	var root *ggql.Root
	switch strategy {
	case 0: // reflection
		return c03Root()
	case 1: // Resolver interface
		root = ggql.NewRoot(&c03Res{})
	default: // AnyResolver over maps
		m := map[string]interface{}{"a": int32(1), "s": "x"}
		m["o"] = m
		m["l"] = []interface{}{m}
		root = ggql.NewRoot(map[string]interface{}{"query": m})
		root.AnyResolver = c03Any{}
	}
	if err := root.ParseString(c03Schema); err != nil {
		panic("harness schema rejected: " + err.Error())
	}
	return root
}

var adversarial = []string{
	"{...F} fragment F on Query{...F}",
	"{...F} fragment F on Query{o{...G}} fragment G on Query{...F}",
	"{...Undefined}",
	"{s}",                             // required argument omitted
	"{s(x:null n:null)}",              // nulls
	"{s(x:1 n:\"a\")}",                // mistyped
	"{s(n:1)}",                        // optional omitted
	"{s(x:\"a\" n:1 zz:2)}",           // undeclared argument
	"query($v:Int!){s(x:\"a\" n:$v)}", // variable (value from the map below)
	"query($v:[Int]){s(x:\"a\" n:$v)}",
	"{o{o{o{o{o{o{o{o{a}}}}}}}}}",
	"{l{l{l{a}}}}",
	"{a{b}}",    // selection on a leaf
	"{o}",       // no selection on an object
	"{a @skip}", // directive without its argument
	"{a @include(if:$nope)}",
	"{__type(name:1){name}}",
	"{__type{name}}",
	"{__schema{types{name fields{name type{name ofType{name}}}}}}",
	"subscription{a}",
	"mutation{a}",
}

// C03_resolve_adversarial: syntactically valid hostile requests x strategy x
// variable values of E Go kind and S payload.
func C03_resolve_adversarial() {
	strategy := sym.Choice("strategy", 3)
	q := sym.Choice("request", len(adversarial))
	var v interface{}
	varkind := sym.Choice("varkind", 7)
	switch varkind {
	case 0:
		v = nil
	case 1:
		v = sym.Int32("v")
	case 2:
		v = sym.Int64("v")
	case 3:
		v = sym.Float64("v")
	case 4:
		v = sym.String("v", 1)
	case 5:
		v = sym.Bool("v")
	case 6:
		v = []interface{}{sym.Int32("v"), nil}
	}
	root := c03RootFor(strategy)
	sym.Budget(3_000_000)
	res := root.ResolveString(adversarial[q], "", map[string]interface{}{"v": v})
	sym.Assert(res != nil, "a response is returned")
}

// C03_root_config: small request set against roots configured in each way an
// application can (nil object, no schema loaded, struct missing the field).
func C03_root_config() {
	reqs := []string{"{a}", "{__typename}", "{__schema{queryType{name}}}", "{__type(name:\"Query\"){name}}", "{zz}"}
	q := sym.Choice("request", len(reqs))
	var root *ggql.Root
	cfg := sym.Choice("config", 5)
	switch cfg {
	case 0: // nil object, schema loaded
		root = ggql.NewRoot(nil)
		_ = root.ParseString(c03Schema)
	case 1: // object, no schema loaded
		root = ggql.NewRoot(&c03Schema_{Query: &c03Query{}})
	case 2: // nil object, no schema
		root = ggql.NewRoot(nil)
	case 3: // struct missing every field
		root = ggql.NewRoot(&struct{ Query *struct{ Other int } }{Query: &struct{ Other int }{}})
		_ = root.ParseString(c03Schema)
	case 4: // non-pointer struct
		root = ggql.NewRoot(c03Schema_{Query: &c03Query{A: 2}})
		_ = root.ParseString(c03Schema)
	}
	sym.Budget(3_000_000)
	res := root.ResolveString(reqs[q], "", nil)
	sym.Assert(res != nil, "a response is returned")
}

// faultReader fails with a non-EOF error at offset k, or returns (0, nil) a
// bounded number of times first.
type faultReader struct {
	data   string
	pos    int
	failAt int
	stalls int
}

type readFault struct{}

func (readFault) Error() string { return "injected read fault" }

func (r *faultReader) Read(p []byte) (int, error) {
	if r.stalls > 0 {
		r.stalls--
		return 0, nil
	}
	if r.pos == r.failAt {
		return 0, readFault{}
	}
	if r.pos >= len(r.data) {
		return 0, io.EOF
	}
	if len(p) == 0 {
		return 0, nil
	}
	p[0] = r.data[r.pos]
	r.pos++
	return 1, nil
}

// C03_reader_fault: readers that fail mid-stream at every offset.
func C03_reader_fault() {
	docs := []string{"type Query { a: Int }\n\"d\" enum E { X }", "query Q($v:Int=1){a s(x:\"y\" n:$v)}", "{a:[1,{b:\"c\"}]}"}
	which := sym.Choice("entry", 3)
	doc := docs[which]
	k := sym.Choice("failAt", len(doc)+2) - 1 // -1 = never
	r := &faultReader{data: doc, failAt: k, stalls: sym.Choice("stalls", 3)}
	sym.Budget(3_000_000)
	switch which {
	case 0:
		root := ggql.NewRoot(nil)
		err := root.ParseReader(r)
		sym.Assert(k < 0 || k > len(doc) || err != nil, "fault surfaces as an error")
	case 1:
		root := c03Root()
		_, err := root.ParseExecutableReader(r)
		sym.Assert(k < 0 || k > len(doc) || err != nil, "fault surfaces as an error")
	case 2:
		_, err := ggql.ParseValue(r)
		sym.Assert(k < 0 || k >= len(doc) || err != nil, "fault surfaces as an error")
	}
}

// ---- one selection node met under several concrete types

const c03AbsSchema = `
interface I { f(x: Int, y: Int): Int g: Int }
type A implements I { f(x: Int, y: Int): Int g: Int a: Int }
type B implements I { f(x: Int, y: Int): Int g: Int b: Int }
union U = A | B
type Query { is: [I] us: [U] i: I }
`

type C03A struct{}
type C03B struct{}

func (*C03A) Resolve(field *ggql.Field, args map[string]interface{}) (interface{}, error) {
	return int32(len(args)), nil
}
func (*C03B) Resolve(field *ggql.Field, args map[string]interface{}) (interface{}, error) {
	return int32(10 + len(args)), nil
}

// reflection variants of the same nodes (methods with parameters)
type C03RA struct{ G, A int32 }
type C03RB struct{ G, B int32 }

func (*C03RA) F(x, y int32) int32 { return x + y }
func (*C03RB) F(x, y int32) int32 { return x - y }

type c03AbsQuery struct{ elems []interface{} }

func (q *c03AbsQuery) Resolve(field *ggql.Field, args map[string]interface{}) (interface{}, error) {
	switch field.Name {
	case "query":
		return q, nil
	case "is", "us":
		return q.elems, nil
	case "i":
		return q.elems[0], nil
	}
	return nil, nil
}

var c03AbsRequests = []string{
	"{is{f(x:1)}}", "{is{f(y:2)}}", "{is{f}}", "{is{f(y:2 x:1)}}", "{is{...on I{f(x:1)}}}",
	"{is{...F}} fragment F on I{f(y:1) g}", "{us{...on I{f(x:1)}}}", "{us{f(x:1)}}", "{us{...on A{f(y:1)} ...on B{f(x:2)}}}",
	"{is{f(x:1) ...on A{f(y:2)}} i{f(y:3)}}", "{is{g f(zz:1)}}", "{is{f(x:null)}}",
	"{is{...F}} fragment F on I{g ...F}", "{i{...F}} fragment F on I{...G} fragment G on I{g ...F}",
	"{us{...F}} fragment F on U{__typename ...F}", "{is{...on I{...F}}} fragment F on A{...on I{...F}}",
}

// C03_abstract_args: fields with several declared arguments, partly supplied,
// selected on an interface / union whose list holds objects of several
// concrete types in every order: the same selection node is resolved under
// each of them.  Resolver nodes bound with RegisterType, or reflected structs
// whose field f is a method with two parameters.
func C03_abstract_args() {
	req := c03AbsRequests[sym.Choice("request", len(c03AbsRequests))]
	reflected := sym.Choice("strategy", 2) == 1
	n := 1 + sym.Choice("elements", 3)
	q := &c03AbsQuery{}
	for k := 0; k < n; k++ {
		isA := sym.Choice("element type", 2) == 0
		switch {
		case reflected && isA:
			q.elems = append(q.elems, &C03RA{})
		case reflected:
			q.elems = append(q.elems, &C03RB{})
		case isA:
			q.elems = append(q.elems, &C03A{})
		default:
			q.elems = append(q.elems, &C03B{})
		}
	}
	root := ggql.NewRoot(q)
	if err := root.ParseString(c03AbsSchema); err != nil {
		panic("harness schema rejected: " + err.Error())
	}
	var ea, eb error
	if reflected {
		ea, eb = root.RegisterType(&C03RA{}, "A"), root.RegisterType(&C03RB{}, "B")
	} else {
		ea, eb = root.RegisterType(&C03A{}, "A"), root.RegisterType(&C03B{}, "B")
	}
	if ea != nil || eb != nil {
		panic("harness: RegisterType refused")
	}
	sym.Budget(6_000_000)
	res := root.ResolveString(req, "", nil)
	sym.Assert(res != nil, "a response is returned")
	if sym.Choice("again", 2) == 1 {
		sym.Assert(root.ResolveString(req, "", nil) != nil, "a response is returned")
	}
}

// ---- hostile but well-formed SDL

var c03HostileSDL = []string{
	"directive @a(x: Int @a) on ARGUMENT_DEFINITION",
	"directive @a(x: Int @b) on ARGUMENT_DEFINITION directive @b(y: Int @a) on ARGUMENT_DEFINITION",
	"directive @b(y: Int @b) on ARGUMENT_DEFINITION directive @a(x: Int @b) on ARGUMENT_DEFINITION", // a loop reached from outside it
	"directive @a(x: Int @b) on ARGUMENT_DEFINITION directive @b(y: Int @b) on ARGUMENT_DEFINITION",
	"directive @a(x: Int @b) on ARGUMENT_DEFINITION directive @b(y: Int @c) on ARGUMENT_DEFINITION directive @c(z: Int @b) on ARGUMENT_DEFINITION",
	"input A { a: A! }",
	"input A { b: B } input B { a: [A!]! }",
	"interface I { i: I } type T implements I { i: T }",
	"union U = U",
	"type T implements T { x: Int }",
	"type Query { a: [[[[[[[[Int]]]]]]]] }",
	"extend type Query { a: Int } extend type Query { b: Int }",
	"type Query { a: Int } extend type Query { a: Int }",
	"enum E { A } extend enum E { A }",
	"schema { query: Nope }",
	"schema { query: Query } schema { query: Query } type Query { a: Int }",
	"type Query { a(x: In = {a: {a: {a: 1}}}): Int } input In { a: In }",
	"scalar S @d directive @d on SCALAR",
	"type Query { a: Int @deprecated(reason: 1) }",
	// directive uses whose argument values are lists, objects, nulls, of the declared kind or not
	"type Query @d(l: [1, 2]) { a: Int } directive @d(l: [Int]) on OBJECT",
	"type Query @d(o: {k: [1]}) { a: Int @d(l: [[1]], o: {k: 1}) } directive @d(l: [Int] o: In) on OBJECT | FIELD_DEFINITION input In { k: [Int] }",
	"enum E @d(l: {a: 1}, o: [1]) { A @d(l: null) } directive @d(l: [Int] o: In) on ENUM | ENUM_VALUE input In { k: Int }",
	"type Query { a(x: Int @d(l: [A, \"s\", 1.5, true, $v])): Int } directive @d(l: [Int]) on ARGUMENT_DEFINITION",
}

// C03_sdl_adversarial: well-formed but hostile schema documents (directive
// loops of every shape, self-referential types, repeated extensions) into a
// fresh root or on top of a loaded one; then the printers.
func C03_sdl_adversarial() {
	doc := c03HostileSDL[sym.Choice("document", len(c03HostileSDL))]
	var root *ggql.Root
	if sym.Choice("on top of a schema", 2) == 1 {
		root = c03RootFor(1)
	} else {
		root = ggql.NewRoot(nil)
	}
	sym.Budget(3_000_000)
	err := root.ParseString(doc)
	_ = root.SDL(true, true)
	if err == nil {
		sym.Cover("hostile schema accepted")
	}
	sym.Assert(root.ResolveString("{__schema{types{name}}}", "", nil) != nil, "a response is returned")
}

package props

// C08 - abstract-typed fields are resolved by each object's concrete type.
// Reflection strategy (and a mixed graph whose nodes also implement
// ggql.Resolver); the harness's own type hierarchy is the oracle.

import (
	"github.com/uhn/ggql/pkg/ggql"

	"verif/harness/sym"
)

const c08SchemaByName = `
interface I { x: Int }
interface J { x: Int }
type A implements J & I { x: Int a: Int }
type B implements I & J { x: Int b: Int }
type C { x: Int c: Int }
union U = A | B
type Query { is: [I] us: [U] i: I u: U a: A b: B js: [J] }
`

// the same schema with the Go types bound by @go (their Go names differ)
const c08SchemaByGo = `
interface I { x: Int }
interface J { x: Int }
type A implements J & I @go(type: "GoA") { x: Int a: Int }
type B implements I & J @go(type: "XGoA") { x: Int b: Int }
type C { x: Int c: Int }
union U = A | B
type Query { is: [I] us: [U] i: I u: U a: A b: B js: [J] }
`

type A struct {
	X int32
	A int32
}
type B struct {
	X int32
	B int32
}
type GoA struct {
	X int32
	A int32
}
// XGoA: the Go type bound to B; its name ends in the name of the type bound
// to A, so a binding test looser than equality confuses the two.
type XGoA struct {
	X int32
	B int32
}

// mixed graph: concrete nodes that implement ggql.Resolver and are
// registered with RegisterType
type ResA struct{ x, a int32 }
type ResB struct{ x, b int32 }

func (n *ResA) Resolve(field *ggql.Field, args map[string]interface{}) (interface{}, error) {
	switch field.Name {
	case "x":
		return n.x, nil
	case "a":
		return n.a, nil
	}
	return nil, nil
}

func (n *ResB) Resolve(field *ggql.Field, args map[string]interface{}) (interface{}, error) {
	switch field.Name {
	case "x":
		return n.x, nil
	case "b":
		return n.b, nil
	}
	return nil, nil
}

type c08Query struct {
	Is []interface{}
	Js []interface{}
	Us []interface{}
	I  interface{}
	U  interface{}
	A  interface{}
	B  interface{}
}

type c08Root struct{ Query *c08Query }

// element describes one object of the data graph in the harness's own terms
type c08Elem struct {
	isA  bool
	x, v int32 // x and the type's own field (a or b)
}

const (
	bindName = iota
	bindRegister
	bindGo
	bindMixed
	nBindings
)

func (e c08Elem) goValue(binding int) interface{} {
	switch binding {
	case bindGo:
		if e.isA {
			return &GoA{X: e.x, A: e.v}
		}
		return &XGoA{X: e.x, B: e.v}
	case bindMixed:
		if e.isA {
			return &ResA{x: e.x, a: e.v}
		}
		return &ResB{x: e.x, b: e.v}
	}
	if e.isA {
		return &A{X: e.x, A: e.v}
	}
	return &B{X: e.x, B: e.v}
}

func c08Elems(name string, n int) []c08Elem {
	out := make([]c08Elem, n)
	for k := range out {
		en := name + string(rune('0'+k))
		out[k] = c08Elem{isA: sym.Choice(en+" type", 2) == 0, x: sym.Int32(en + ".x"), v: sym.Int32(en + ".v")}
	}
	return out
}

// applies: the harness's own hierarchy
func c08Applies(isA bool, cond string) bool {
	switch cond {
	case "", "I", "J", "U":
		return true
	case "A":
		return isA
	case "B":
		return !isA
	}
	return false // C: unrelated
}

// expected object for element e under selection {__typename SEL x? ...on cond{sub}}
func c08Expect(e c08Elem, withX bool, cond, sub string) map[string]interface{} {
	out := map[string]interface{}{}
	if e.isA {
		out["__typename"] = "A"
	} else {
		out["__typename"] = "B"
	}
	if withX {
		out["x"] = e.x
	}
	if c08Applies(e.isA, cond) {
		switch sub {
		case "x":
			out["x"] = e.x
		case "a":
			out["a"] = e.v
		case "b":
			out["b"] = e.v
		case "c":
			out["c"] = nil
		case "t:__typename":
			out["t"] = out["__typename"]
		}
	}
	return out
}

// C08_abstract: every (container field kind, fragment condition, concrete
// element type, binding, cold/warm) combination.
func C08_abstract() {
	binding := sym.Choice("binding", nBindings)
	// container field
	fields := []struct {
		name     string
		list     bool
		abstract string // "I", "U" or "" (object-typed)
	}{{"is", true, "I"}, {"us", true, "U"}, {"i", false, "I"}, {"u", false, "U"}, {"a", false, ""}, {"b", false, ""}, {"js", true, "J"}}
	f := fields[sym.Choice("field", len(fields))]
	conds := []struct{ cond, sub string }{{"", "t:__typename"}, {"A", "a"}, {"B", "b"}, {"I", "x"}, {"U", "t:__typename"}, {"C", "c"}, {"J", "x"}}
	c := conds[sym.Choice("condition", len(conds))]
	named := sym.Choice("named fragment", 2) == 1
	warm := sym.Choice("warm", 2) == 1

	maxLen := 2
	if sym.Thorough() {
		maxLen = 3
	}
	n := 1
	if f.list {
		n = sym.Choice("len", maxLen+1)
	}
	elems := c08Elems("e", n)
	if f.name == "a" {
		elems[0].isA = true
	}
	if f.name == "b" {
		elems[0].isA = false
	}
	q := &c08Query{}
	vals := make([]interface{}, n)
	for k, e := range elems {
		vals[k] = e.goValue(binding)
	}
	switch f.name {
	case "is":
		q.Is = vals
	case "js":
		q.Js = vals
	case "us":
		q.Us = vals
	case "i":
		q.I = vals[0]
	case "u":
		q.U = vals[0]
	case "a":
		q.A = vals[0]
	case "b":
		q.B = vals[0]
	}
	schema := c08SchemaByName
	if binding == bindGo {
		schema = c08SchemaByGo
	}
	root := ggql.NewRoot(&c08Root{Query: q})
	if err := root.ParseString(schema); err != nil {
		panic("harness schema rejected: " + err.Error())
	}
	switch binding {
	case bindRegister:
		sym.Assert(root.RegisterType(&A{}, "A") == nil && root.RegisterType(&B{}, "B") == nil, "types registered")
	case bindMixed:
		sym.Assert(root.RegisterType(&ResA{}, "A") == nil && root.RegisterType(&ResB{}, "B") == nil, "types registered")
	}
	if q.A == nil {
		q.A = c08Elem{isA: true}.goValue(binding)
	}
	if q.B == nil {
		q.B = c08Elem{}.goValue(binding)
	}
	if warm {
		// another request touched both concrete types first
		res := root.ResolveString("{a{x} b{x}}", "", nil)
		sym.Assert(res["errors"] == nil, "warm-up request resolved")
	}
	// under a union only __typename and fragments are valid selections
	withX := f.abstract != "U"
	sel := "__typename"
	if withX {
		sel += " x"
	}
	frag := ""
	doc := ""
	inner := "{" + c.sub + "}"
	if named {
		cond := c.cond
		if cond == "" {
			// a named fragment needs a condition: use the container's own type
			switch f.abstract {
			case "I", "J", "U":
				cond = f.abstract
			default:
				cond = map[string]string{"a": "A", "b": "B"}[f.name]
			}
		}
		frag = " fragment F on " + cond + inner
		doc = "{" + f.name + "{" + sel + " ...F}}" + frag
		c.cond = cond
	} else if c.cond == "" {
		doc = "{" + f.name + "{" + sel + " ..." + inner + "}}"
	} else {
		doc = "{" + f.name + "{" + sel + " ...on " + c.cond + inner + "}}"
	}
	sym.Observe("doc", doc)
	sym.Budget(6_000_000)

	res := root.ResolveString(doc, "", nil)
	sym.Observe("res", res)
	sym.Assert(res["errors"] == nil, "request resolved without error")
	data, _ := res["data"].(map[string]interface{})
	sym.Assert(data != nil, "data present")
	var want interface{}
	if f.list {
		l := make([]interface{}, 0, n)
		for _, e := range elems {
			l = append(l, c08Expect(e, withX, c.cond, c.sub))
		}
		want = l
	} else {
		want = c08Expect(elems[0], withX, c.cond, c.sub)
	}
	sym.Assert(sym.DeepEqual(data[f.name], want), "objects resolved by their concrete type")
}

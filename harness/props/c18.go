package props

import (
	"bytes"
	"unicode/utf8"

	"github.com/uhn/ggql/pkg/ggql"

	"verif/harness/sym"
)

func indentChoice() int {
	return []int{-1, 0, 2}[sym.Choice("indent", 3)]
}

func sdlText(v interface{}, indent int) string {
	var b bytes.Buffer
	if err := ggql.WriteSDLValue(&b, v, indent); err != nil {
		return "<write error>"
	}
	return b.String()
}

func jsonText(v interface{}, indent int) string {
	var b bytes.Buffer
	if err := ggql.WriteJSONValue(&b, v, indent); err != nil {
		return "<write error>"
	}
	return b.String()
}

// C18_string_sdl: ParseValue(WriteSDL(s)) == s for every valid UTF-8 string
// of up to N bytes (all byte values: quotes, backslashes, control bytes).
func C18_string_sdl() {
	n := lenChoice("len", 2, 3)
	s := sym.String("s", n)
	sym.Assume(utf8.ValidString(s))
	text := sdlText(s, indentChoice())
	sym.Observe("text", text)
	v, err := ggql.ParseValueString(text)
	sym.Assert(err == nil, "written SDL string parses")
	back, ok := v.(string)
	sym.Assert(ok && back == s, "SDL string round-trips")
}

// C18_string_json: the JSON form of every byte string of up to N bytes is
// accepted by the reference JSON reader and decodes to the string with each
// invalid UTF-8 byte replaced by U+FFFD.
func C18_string_json() {
	n := lenChoice("len", 3, 4)
	s := sym.String("s", n)
	text := jsonText(s, indentChoice())
	sym.Observe("text", text)
	v, ok := parseJSON(text)
	sym.Assert(ok, "JSON text is valid")
	back, isStr := v.(string)
	sym.Assert(isStr && back == string([]rune(s)), "JSON string decodes to the same text")
}

// valueTrees: E family of value trees with S leaves.
func genValue(budget *int, depth int) interface{} {
	*budget--
	kinds := 6
	if depth > 0 && *budget > 0 {
		kinds = 8
	}
	switch sym.Choice("node", kinds) {
	case 0:
		return nil
	case 1:
		return sym.Bool("b")
	case 2:
		// integers: S within 0..99 (strconv's table path) and -9..-1, plus E
		// concrete boundaries (decimal formatting of wide symbolic integers
		// is value enumeration in disguise, see DESIGN.md section 3.4)
		switch sym.Choice("int kind", 3) {
		case 0:
			i := sym.Int64("i")
			sym.Assume(sym.And(i >= 0, i < 100))
			return i
		case 1:
			i := sym.Int64("i")
			sym.Assume(sym.And(i >= -9, i < 0))
			return i
		}
		return []int64{2147483647, -2147483648, 4294967296, 9007199254740993, 9223372036854775807, -9223372036854775808}[sym.Choice("boundary", 6)]
	case 3:
		str := sym.String("str", 1)
		sym.Assume(utf8.ValidString(str)) // the property's domain: valid UTF-8 strings
		return str
	case 4:
		return ggql.Symbol(nameToken("sym"))
	case 5:
		return ggql.Var(nameToken("var"))
	case 6:
		n := sym.Choice("list len", 3)
		l := []interface{}{}
		for k := 0; k < n && *budget > 0; k++ {
			l = append(l, genValue(budget, depth-1))
		}
		return l
	default:
		n := sym.Choice("map len", 3)
		m := map[string]interface{}{}
		for k := 0; k < n && *budget > 0; k++ {
			m[[]string{"k", "a"}[k]] = genValue(budget, depth-1)
		}
		return m
	}
}

// nameToken is a 1-byte GraphQL name other than the literals.
func nameToken(label string) string {
	s := sym.String(label, 1)
	sym.Assume(isNameByte(s[0]))
	return s
}

// jsonView is v as JSON shows it: symbols and variables become strings.
func jsonView(v interface{}) interface{} {
	switch tv := v.(type) {
	case ggql.Symbol:
		return string(tv)
	case ggql.Var:
		return "$" + string(tv)
	case []interface{}:
		out := []interface{}{}
		for _, e := range tv {
			out = append(out, jsonView(e))
		}
		return out
	case map[string]interface{}:
		out := map[string]interface{}{}
		for k, e := range tv {
			out[k] = jsonView(e)
		}
		return out
	}
	return v
}

// C18_tree: value trees round-trip through the SDL form, and their JSON form
// is valid JSON that decodes to the same structure.
func C18_tree() {
	budget := 2
	if sym.Thorough() {
		budget = 3
	}
	v := genValue(&budget, 2)
	indent := indentChoice()
	ggql.Sort = sym.Choice("sort", 2) == 1
	text := sdlText(v, indent)
	back, err := ggql.ParseValueString(text)
	sym.Assert(err == nil, "written SDL value parses")
	sym.Assert(sym.DeepEqual(back, v), "SDL value round-trips")

	jt := jsonText(v, indent)
	if ggql.Sort {
		sym.Observe("sdl", text)
		sym.Observe("json", jt)
	}
	jv, ok := parseJSON(jt)
	sym.Assert(ok, "JSON text is valid")
	sym.Assert(sym.DeepEqual(jv, jsonView(v)), "JSON decodes to the same structure")
	ggql.Sort = false
}

// C18_adjacent: container adjacency layouts (empty and non-empty containers
// next to each other and next to scalars) with one S leaf, every indent mode,
// sorted and unsorted.
func C18_adjacent() {
	// the leaf next to the containers: every kind of scalar token (the tight
	// SDL mode drops the comma between a scalar and a following container, so
	// the scanner must end each kind of token at '{' and '[')
	var leaf interface{}
	lk := sym.Choice("leaf kind", 8)
	switch lk {
	case 0:
		leaf = sym.Bool("leaf")
	case 1:
		leaf = ggql.Symbol(nameToken("sym"))
	case 2:
		leaf = []int64{0, -7, 2147483648}[sym.Choice("int", 3)]
	case 3:
		leaf = []float64{1.5, -2.5e-3}[sym.Choice("float", 2)]
	case 4:
		leaf = sym.String("str", 1)
		sym.Assume(utf8.ValidString(leaf.(string)))
	case 5:
		leaf = ggql.Var(nameToken("var"))
	case 6:
		leaf = nil
	default:
		leaf = ""
	}
	e := func() interface{} { return []interface{}{} }
	m := func() interface{} { return map[string]interface{}{} }
	shapes := []interface{}{
		[]interface{}{e(), m(), leaf},
		[]interface{}{leaf, e(), e()},
		[]interface{}{m(), leaf, m()},
		[]interface{}{[]interface{}{leaf}, []interface{}{leaf}},
		[]interface{}{map[string]interface{}{"k": leaf}, map[string]interface{}{"k": leaf}, int64(3)},
		map[string]interface{}{"k": e(), "a": m()},
		map[string]interface{}{"k": leaf, "a": e()},
		map[string]interface{}{"k": []interface{}{leaf, nil}, "a": leaf},
		map[string]interface{}{"k": map[string]interface{}{"a": m()}, "a": "s"},
		[]interface{}{nil, nil, []interface{}{nil}},
		[]interface{}{leaf, map[string]interface{}{"k": leaf}},
		[]interface{}{leaf, []interface{}{leaf}, leaf},
		map[string]interface{}{"a": leaf, "k": map[string]interface{}{"b": leaf}},
	}
	v := shapes[sym.Choice("shape", len(shapes))]
	indent := indentChoice()
	ggql.Sort = sym.Choice("sort", 2) == 1
	text := sdlText(v, indent)
	if ggql.Sort { // (unsorted maps print in Go's random map order natively)
		sym.Observe("sdl", text)
	}
	back, err := ggql.ParseValueString(text)
	sym.Assert(err == nil, "written SDL value parses")
	sym.Assert(sym.DeepEqual(back, v), "SDL value round-trips")
	jt := jsonText(v, indent)
	jv, ok := parseJSON(jt)
	sym.Assert(ok, "JSON text is valid")
	if lk != 3 { // (the reference JSON reader checks float syntax, it does not convert decimal text)
		sym.Assert(sym.DeepEqual(jv, jsonView(v)), "JSON decodes to the same structure")
	}
	ggql.Sort = false
}

// C18_json_key: map keys of every byte content in the JSON form.
func C18_json_key() {
	n := 1 + lenChoice("len", 1, 2)
	k := sym.String("key", n)
	v := map[string]interface{}{k: int64(1)}
	jt := jsonText(v, indentChoice())
	sym.Observe("json", jt)
	jv, ok := parseJSON(jt)
	sym.Assert(ok, "JSON text is valid")
	sym.Assert(sym.DeepEqual(jv, interface{}(map[string]interface{}{string([]rune(k)): int64(1)})), "JSON decodes to the same structure")
}

// C18_float: non-integral finite floats (concrete boundary values: decimal
// float text is not encodable, DESIGN.md section 6) inside E containers.
func C18_float() {
	fs := []float64{1.5, -0.25, 1e21, 1e-7, 0.1, 123456.789, 1.7976931348623157e308, 5e-324, -2.5e-10, 3.0000000000000004}
	f := fs[sym.Choice("float", len(fs))]
	var v interface{} = f
	switch sym.Choice("container", 3) {
	case 1:
		v = []interface{}{f, sym.Bool("b")}
	case 2:
		v = map[string]interface{}{"k": f}
	}
	indent := indentChoice()
	text := sdlText(v, indent)
	back, err := ggql.ParseValueString(text)
	sym.Assert(err == nil, "written SDL value parses")
	sym.Assert(sym.DeepEqual(back, v), "SDL value round-trips")
	_, ok := parseJSON(jsonText(v, indent))
	sym.Assert(ok, "JSON text is valid")
}

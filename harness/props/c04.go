package props

// C04 - resolvers only receive arguments that conform to the declared input
// types.  Kernels drive every scalar's CoerceIn with full-width symbolic
// payloads; the end-to-end harnesses send a written value (literal, variable,
// variable default, nested) through ParseExecutable + ResolveExecutable and
// compare what the Resolver stub was handed with a reference coercion written
// from the GraphQL input-coercion rules (it never calls ggql).

import (
	"math"

	"github.com/uhn/ggql/pkg/ggql"

	"verif/harness/sym"
)

func inCoercer(name string) ggql.InCoercer {
	return ggql.NewRoot(nil).GetType(name).(ggql.InCoercer)
}

// nonNumeric returns a value of a non-numeric Go kind (E) with S payload.
func nonNumeric(k int) interface{} {
	switch k {
	case 0:
		return symText("s", 2)
	case 1:
		return sym.Bool("b")
	case 2:
		return ggql.Symbol(sym.String("sym", 1))
	case 3:
		return []interface{}{sym.Int32("e")}
	}
	return map[string]interface{}{"k": sym.Int32("e")}
}

// C04_IntIn: Int.CoerceIn of every Go kind: accepted only as an int32 that
// denotes the same number; everything else is an error.
func C04_IntIn() {
	kind := sym.Choice("kind", nNumKinds+5)
	in := inCoercer("Int")
	if kind >= nNumKinds {
		v := nonNumeric(kind - nNumKinds)
		_, err := in.CoerceIn(v)
		sym.Assert(err != nil, "non-numeric value rejected")
		return
	}
	n := anyNum(kind)
	r, err := in.CoerceIn(n.v)
	sym.Observe("err", err != nil)
	if err != nil {
		sym.Cover("rejected")
		sym.Assert(!sym.And(n.inInt32(), sym.Or(kind == kInt32, kind == kInt64, kind == kFloat64)), "representable parser-produced number accepted")
		return
	}
	sym.Observe("r", r)
	i, ok := r.(int32)
	sym.Assert(ok, "Int argument is int32")
	sym.Assert(n.equalsInt32(i), "Int argument denotes the written number")
}

// C04_Int64In: Int64.CoerceIn: int64 denoting the same number, or an error.
func C04_Int64In() {
	kind := sym.Choice("kind", nNumKinds+2)
	in := inCoercer("Int64")
	if kind == nNumKinds {
		s := symText("s", 3)
		r, err := in.CoerceIn(s)
		val, good := refParseDecimal(s)
		if err != nil {
			sym.Assert(r == nil, "error implies nil")
			sym.Assert(!good, "decimal text accepted")
			return
		}
		i, ok := r.(int64)
		sym.Assert(ok, "Int64 argument is int64")
		sym.Assert(good && val == i, "text denotes the result")
		return
	}
	if kind == nNumKinds+1 {
		_, err := in.CoerceIn(sym.Bool("b"))
		sym.Assert(err != nil, "non-numeric value rejected")
		return
	}
	n := anyNum(kind)
	r, err := in.CoerceIn(n.v)
	if err != nil {
		sym.Assert(r == nil, "error implies nil")
		sym.Assert(!sym.Or(kind == kInt32, kind == kInt64), "parser-produced integer accepted")
		return
	}
	i, ok := r.(int64)
	sym.Assert(ok, "Int64 argument is int64")
	sym.Assert(n.equalsInt64(i), "Int64 argument denotes the written number")
}

// C04_FloatIn: Float.CoerceIn: a finite float32 equal to the written number
// rounded to the declared 32-bit format, or an error.
func C04_FloatIn() {
	kind := sym.Choice("kind", nNumKinds+5)
	in := inCoercer("Float")
	if kind >= nNumKinds {
		_, err := in.CoerceIn(nonNumeric(kind - nNumKinds))
		sym.Assert(err != nil, "non-numeric value rejected")
		return
	}
	n := anyNum(kind)
	r, err := in.CoerceIn(n.v)
	sym.Observe("err", err != nil)
	if err != nil {
		sym.Assert(r == nil, "error implies nil")
		if n.isFloat {
			sym.Assert(!sym.And(isFinite(n.f64), math.Abs(n.f64) <= math.MaxFloat32), "finite in-range float accepted")
		} else {
			sym.Assert(!sym.Or(kind == kInt32, kind == kInt64), "parser-produced integer accepted")
		}
		return
	}
	f, ok := r.(float32)
	sym.Assert(ok, "Float argument is float32")
	sym.Assert(isFinite(float64(f)), "Float argument is finite")
	if n.isFloat {
		sym.Assert(f == float32(n.f64), "Float argument is the written number in 32-bit precision")
	} else {
		sym.Assert(sym.And(n.fitsI64, f == float32(n.i64)), "Float argument is the written integer in 32-bit precision")
	}
}

// C04_Float64In: Float64.CoerceIn: a finite float64 equal to the written number.
func C04_Float64In() {
	kind := sym.Choice("kind", nNumKinds+2)
	in := inCoercer("Float64")
	if kind == nNumKinds {
		// decimal text is concrete (strconv.ParseFloat is outside the encoding)
		texts := []string{"1.5", "-2", "", "abc", "1e999", "NaN", "Inf", "-Inf", "+Inf", "infinity", "nan", "0x1p-2", "1_0"}
		s := texts[sym.Choice("text", len(texts))]
		r, err := in.CoerceIn(s)
		if err != nil {
			sym.Assert(r == nil, "error implies nil")
			return
		}
		f, ok := r.(float64)
		sym.Assert(ok, "Float64 argument is float64")
		sym.Assert(isFinite(f), "Float64 argument is finite")
		return
	}
	if kind == nNumKinds+1 {
		_, err := in.CoerceIn(sym.Bool("b"))
		sym.Assert(err != nil, "non-numeric value rejected")
		return
	}
	n := anyNum(kind)
	r, err := in.CoerceIn(n.v)
	if err != nil {
		sym.Assert(r == nil, "error implies nil")
		if n.isFloat {
			sym.Assert(!isFinite(n.f64), "finite float accepted")
		}
		return
	}
	f, ok := r.(float64)
	sym.Assert(ok, "Float64 argument is float64")
	sym.Assert(isFinite(f), "Float64 argument is finite")
	if n.isFloat {
		sym.Assert(f == n.f64, "Float64 argument equals the written number")
	} else {
		sym.Assert(sym.And(n.fitsI64, f == float64(n.i64)), "Float64 argument is the written integer")
	}
}

// C04_TextIn: String / ID / Boolean CoerceIn.
func C04_TextIn() {
	switch sym.Choice("type", 3) {
	case 0: // String: strings only, unchanged
		in := inCoercer("String")
		if sym.Choice("kind", 2) == 0 {
			s := symText("s", 3)
			r, err := in.CoerceIn(s)
			sym.Assert(err == nil, "string accepted")
			rs, ok := r.(string)
			sym.Assert(ok && rs == s, "String argument unchanged")
			return
		}
		k := sym.Choice("other", nNumKinds+4)
		var v interface{}
		if k < nNumKinds {
			v = anyNum(k).v
		} else {
			v = nonNumeric(k - nNumKinds + 1)
		}
		_, err := in.CoerceIn(v)
		sym.Assert(err != nil, "non-string rejected for String")
	case 1: // ID: strings unchanged, integers as their decimal text
		in := inCoercer("ID")
		k := sym.Choice("kind", 6)
		switch k {
		case 0:
			s := symText("s", 3)
			r, err := in.CoerceIn(s)
			sym.Assert(err == nil, "string accepted")
			rs, ok := r.(string)
			sym.Assert(ok && rs == s, "ID argument unchanged")
		case 1, 2, 3:
			n := anyNum([]int{kInt, kInt32, kInt64}[k-1])
			lim := int64(30)
			if sym.Thorough() {
				lim = 300
			}
			sym.Assume(sym.And(n.i64 > -lim, n.i64 < lim)) // formatting bound
			r, err := in.CoerceIn(n.v)
			sym.Assert(err == nil, "integer accepted as ID")
			rs, ok := r.(string)
			sym.Assert(ok, "ID argument is a string")
			val, good := refParseDecimal(rs)
			sym.Assert(good && val == n.i64, "ID text denotes the written integer")
		case 4:
			_, err := in.CoerceIn(sym.Float64("f"))
			sym.Assert(err != nil, "float rejected for ID")
		case 5:
			_, err := in.CoerceIn(sym.Bool("b"))
			sym.Assert(err != nil, "bool rejected for ID")
		}
	default: // Boolean
		in := inCoercer("Boolean")
		if sym.Choice("kind", 2) == 0 {
			b := sym.Bool("b")
			r, err := in.CoerceIn(b)
			sym.Assert(err == nil, "bool accepted")
			rb, ok := r.(bool)
			sym.Assert(ok && rb == b, "Boolean argument unchanged")
			return
		}
		k := sym.Choice("other", nNumKinds+3)
		var v interface{}
		if k < nNumKinds {
			v = anyNum(k).v
		} else if k == nNumKinds {
			v = symText("s", 2)
		} else {
			v = nonNumeric(k - nNumKinds + 1)
		}
		_, err := in.CoerceIn(v)
		sym.Assert(err != nil, "non-bool rejected for Boolean")
	}
}

// ---------------------------------------------------------------- end to end

const c04Schema = `
type Query {
  fi(x: Int): Int
  fn(x: Int!): Int
  ff(x: Float): Int
  fb(x: Boolean): Int
  fs(x: String): Int
  fd(x: ID): Int
  fl(x: [Int]): Int
  fli(x: [Int!]): Int
  fln(x: [Int!]!): Int
  flq(x: [Int]!): Int
  fll(x: [[Int]]): Int
  fe(x: En): Int
  fle(x: [En!]): Int
  fo(x: In): Int
  fon(x: In!): Int
  flo(x: [In]): Int
  fp(x: Pt): Int
  f2(x: Int, y: Int, z: En): Int
}
enum En { A BC }
input In { r: Int! d: Int = 7 o: Int l: [Int!] e: En }
input Pt { p: In q: [In!] }
`

// type expressions of the harness's own reference coercion
const (
	tInt = iota
	tFloat
	tString
	tBool
	tID
	tEnum
	tInput
	tList
	tNonNull
)

type ty struct {
	k      int
	of     *ty
	fields []fld    // tInput
	vals   []string // tEnum
}

type fld struct {
	name string
	t    *ty
	def  interface{} // nil: none
}

var (
	tyInt   = &ty{k: tInt}
	tyFloat = &ty{k: tFloat}
	tyStr   = &ty{k: tString}
	tyBool  = &ty{k: tBool}
	tyID    = &ty{k: tID}
	tyEn    = &ty{k: tEnum, vals: []string{"A", "BC"}}
	tyIn    = &ty{k: tInput, fields: []fld{
		{"r", nn(tyInt), nil}, {"d", tyInt, int32(7)}, {"o", tyInt, nil}, {"l", lst(nn(tyInt)), nil}, {"e", tyEn, nil}}}
	tyPt = &ty{k: tInput, fields: []fld{{"p", tyIn, nil}, {"q", lst(nn(tyIn)), nil}}}
)

func nn(t *ty) *ty  { return &ty{k: tNonNull, of: t} }
func lst(t *ty) *ty { return &ty{k: tList, of: t} }

// written values
const (
	wAbsent = iota
	wNull
	wInt
	wFloat
	wStr
	wBool
	wSym
	wList
	wObj
)

type wv struct {
	k    int
	i    int64
	f    float64
	s    string
	b    bool
	text string // literal text of a number (symbolic digits)
	list []*wv
	keys []string
	obj  map[string]*wv
}

// refCoerce is the reference input coercion: the value a resolver must be
// handed for written value w at type t, or ok=false when w cannot be coerced.
// lenient=true marks cases the GraphQL specification and ggql's documentation
// leave open (a single value where a list is expected): either outcome is
// conforming as long as what is handed over conforms.
func refCoerce(t *ty, w *wv) (val interface{}, ok bool, lenient bool) {
	if t.k == tNonNull {
		if w.k == wNull || w.k == wAbsent {
			return nil, false, false
		}
		return refCoerce(t.of, w)
	}
	if w.k == wNull || w.k == wAbsent {
		return nil, true, false
	}
	switch t.k {
	case tInt:
		switch w.k {
		case wInt:
			return int32(w.i), sym.And(w.i >= math.MinInt32, w.i <= math.MaxInt32), false
		case wFloat:
			return int32(w.f), sym.And(isIntegral(w.f), w.f >= math.MinInt32, w.f <= math.MaxInt32), false
		}
	case tFloat:
		switch w.k {
		case wInt:
			return float32(w.i), true, false
		case wFloat:
			return float32(w.f), sym.And(isFinite(w.f), math.Abs(w.f) <= math.MaxFloat32), false
		}
	case tString:
		if w.k == wStr {
			return w.s, true, false
		}
	case tBool:
		if w.k == wBool {
			return w.b, true, false
		}
	case tID:
		if w.k == wStr {
			return w.s, true, false
		}
		if w.k == wInt {
			// a literal integer becomes its decimal text; an integer that arrives
			// through the variables map in another Go kind may also be refused
			return idInt{w.i}, true, w.text == ""
		}
		if w.k == wFloat {
			return nil, false, true // a JSON number for an ID: may be refused
		}
	case tEnum:
		if w.k == wSym {
			member := false
			for _, m := range t.vals {
				member = sym.Or(member, w.s == m)
			}
			return ggql.Symbol(w.s), member, false
		}
	case tList:
		if w.k != wList {
			return nil, false, true
		}
		out := make([]interface{}, len(w.list))
		all := true
		for k, e := range w.list {
			v, ok, len := refCoerce(t.of, e)
			if len {
				return nil, false, true
			}
			out[k] = v
			all = sym.And(all, ok)
		}
		return out, all, false
	case tInput:
		if w.k != wObj {
			return nil, false, false
		}
		for _, k := range w.keys {
			declared := false
			for _, f := range t.fields {
				if f.name == k {
					declared = true
				}
			}
			if !declared {
				return nil, false, false
			}
		}
		out := map[string]interface{}{}
		all := true
		for _, f := range t.fields {
			e := w.obj[f.name]
			if e == nil || e.k == wNull || e.k == wAbsent {
				if f.def != nil {
					out[f.name] = f.def
				} else if f.t.k == tNonNull {
					return nil, false, false
				}
				continue
			}
			v, ok, len := refCoerce(f.t, e)
			if len {
				return nil, false, true
			}
			out[f.name] = v
			all = sym.And(all, ok)
		}
		return out, all, false
	}
	return nil, false, false
}

// conforms reports whether a Go value has the representation of type t.
func conforms(t *ty, v interface{}) bool {
	if t.k == tNonNull {
		return v != nil && conforms(t.of, v)
	}
	if v == nil {
		return true
	}
	switch t.k {
	case tInt:
		_, ok := v.(int32)
		return ok
	case tFloat:
		f, ok := v.(float32)
		return ok && isFinite(float64(f))
	case tString, tID:
		_, ok := v.(string)
		return ok
	case tBool:
		_, ok := v.(bool)
		return ok
	case tEnum:
		s, ok := v.(ggql.Symbol)
		if !ok {
			return false
		}
		member := false
		for _, m := range t.vals {
			member = sym.Or(member, string(s) == m)
		}
		return member
	case tList:
		l, ok := v.([]interface{})
		if !ok {
			return false
		}
		all := true
		for _, e := range l {
			all = sym.And(all, conforms(t.of, e))
		}
		return all
	case tInput:
		m, ok := v.(map[string]interface{})
		if !ok {
			return false
		}
		all := true
		for k, e := range m {
			var ft *ty
			for _, f := range t.fields {
				if f.name == k {
					ft = f.t
				}
			}
			if ft == nil {
				return false
			}
			all = sym.And(all, conforms(ft, e))
		}
		for _, f := range t.fields {
			if f.t.k == tNonNull && m[f.name] == nil {
				return false
			}
		}
		return all
	}
	return false
}

// idInt is the expected value of an ID written as an integer: a string that
// is decimal text denoting i.
type idInt struct{ i int64 }

// sameArg compares what the resolver was handed with the reference value:
// same Go representation, same value; a nil-valued map entry and a missing
// one are the same (an optional input field left out).
func sameArg(got, want interface{}) bool {
	switch w := want.(type) {
	case nil:
		return got == nil
	case int32:
		g, ok := got.(int32)
		return sym.And(ok, g == w)
	case float32:
		g, ok := got.(float32)
		return sym.And(ok, g == w)
	case string:
		g, ok := got.(string)
		return sym.And(ok, g == w)
	case bool:
		g, ok := got.(bool)
		return sym.And(ok, g == w)
	case ggql.Symbol:
		g, ok := got.(ggql.Symbol)
		return sym.And(ok, g == w)
	case idInt:
		g, ok := got.(string)
		if !ok {
			return false
		}
		val, good := refParseDecimal(g)
		return sym.And(good, val == w.i)
	case []interface{}:
		g, ok := got.([]interface{})
		if !ok || len(g) != len(w) {
			return false
		}
		all := true
		for k := range w {
			all = sym.And(all, sameArg(g[k], w[k]))
		}
		return all
	case map[string]interface{}:
		g, ok := got.(map[string]interface{})
		if !ok {
			return false
		}
		all := true
		for k, wvv := range w {
			all = sym.And(all, sameArg(g[k], wvv))
		}
		for k, gv := range g {
			if _, has := w[k]; !has {
				all = sym.And(all, gv == nil)
			}
		}
		return all
	}
	return false
}

// literal renders a written value as GraphQL literal text.
func (w *wv) literal() string {
	switch w.k {
	case wNull:
		return "null"
	case wInt, wFloat:
		return w.text
	case wStr:
		return `"` + w.s + `"`
	case wBool:
		if w.b {
			return "true"
		}
		return "false"
	case wSym:
		return w.s
	case wList:
		out := "["
		for k, e := range w.list {
			if k > 0 {
				out += " "
			}
			out += e.literal()
		}
		return out + "]"
	case wObj:
		out := "{"
		for k, name := range w.keys {
			if k > 0 {
				out += " "
			}
			out += name + ":" + w.obj[name].literal()
		}
		return out + "}"
	}
	return ""
}

// goValue renders a written value as the Go value a variables map carries.
func (w *wv) goValue() interface{} {
	switch w.k {
	case wNull, wAbsent:
		return nil
	case wInt:
		return w.i
	case wFloat:
		return w.f
	case wStr:
		return w.s
	case wBool:
		return w.b
	case wSym:
		return ggql.Symbol(w.s)
	case wList:
		out := make([]interface{}, len(w.list))
		for k, e := range w.list {
			out[k] = e.goValue()
		}
		return out
	case wObj:
		out := map[string]interface{}{}
		for _, name := range w.keys {
			out[name] = w.obj[name].goValue()
		}
		return out
	}
	return nil
}

// viaKind returns the value as it is once its integers travel in Go kind
// intKind (0: float64, the way encoding/json decodes every number; 1: int;
// 2: int64; 3: int32 where it fits): an integer beyond 2^53 carried as
// float64 IS the rounded float, and that is then the written value.
func (w *wv) viaKind(intKind int) (*wv, interface{}) {
	switch w.k {
	case wInt:
		switch intKind {
		case 0:
			f := float64(w.i)
			return &wv{k: wFloat, f: f}, f
		case 1:
			return &wv{k: wInt, i: w.i}, int(w.i)
		case 3:
			if w.i >= math.MinInt32 && w.i <= math.MaxInt32 {
				return &wv{k: wInt, i: w.i}, int32(w.i)
			}
		}
		return &wv{k: wInt, i: w.i}, w.i
	case wList:
		nw := &wv{k: wList}
		out := make([]interface{}, len(w.list))
		for k, e := range w.list {
			var ne *wv
			ne, out[k] = e.viaKind(intKind)
			nw.list = append(nw.list, ne)
		}
		return nw, out
	case wObj:
		nw := &wv{k: wObj, keys: w.keys, obj: map[string]*wv{}}
		out := map[string]interface{}{}
		for _, name := range w.keys {
			nw.obj[name], out[name] = w.obj[name].viaKind(intKind)
		}
		return nw, out
	}
	return w, w.goValue()
}

// symIntLit draws an integer literal (S sign).  rich <= 1: one S digit.
// Otherwise an E form: 1..rich S digits; a boundary template whose last digit
// is S (both sides of +-2^31, of 2^32 and of 10^10 are inside: 214748364?,
// 429496729?, 999999999?); or a concrete literal around +-2^63, which the
// scanner reads as a float.  Ten fully symbolic digits are out of reach (the
// chained 64-bit multiplications of strconv.ParseUint stall the solver, see
// DESIGN.md section 3.4), hence the templates.
var c04IntTemplates = []string{"214748364", "429496729", "999999999"}

var c04BigLits = []struct {
	text  string
	isInt bool
	i     int64
	f     float64
}{
	{"9223372036854775807", true, math.MaxInt64, 0},
	{"-9223372036854775808", true, math.MinInt64, 0},
	{"9223372036854775808", false, 0, 9223372036854775808.0},
	{"-9223372036854775809", false, 0, -9223372036854775809.0},
	{"18446744073709551617", false, 0, 18446744073709551617.0},
}

func symIntLit(name string, rich int) *wv {
	if rich < 0 { // concrete digit, S sign (composite values whose integers travel as float64)
		if sym.Bool(name + ".neg") {
			return &wv{k: wInt, i: -7, text: "-7"}
		}
		return &wv{k: wInt, i: 7, text: "7"}
	}
	prefix := ""
	nd := 1
	if rich > 1 {
		form := sym.Choice(name+".form", rich+len(c04IntTemplates)+len(c04BigLits))
		switch {
		case form < rich:
			nd = 1 + form
		case form < rich+len(c04IntTemplates):
			prefix = c04IntTemplates[form-rich]
		default:
			b := c04BigLits[form-rich-len(c04IntTemplates)]
			if b.isInt {
				return &wv{k: wInt, i: b.i, text: b.text}
			}
			return &wv{k: wFloat, f: b.f, text: b.text}
		}
	}
	d := sym.String(name, nd)
	for k := 0; k < nd; k++ {
		sym.Assume(sym.And(d[k] >= '0', d[k] <= '9'))
	}
	text := prefix + d
	var v int64
	for k := 0; k < len(text); k++ {
		v = v*10 + int64(text[k]-'0')
	}
	if sym.Bool(name + ".neg") {
		text = "-" + text
		v = -v
	}
	return &wv{k: wInt, i: v, text: text}
}

var c04FloatLits = []struct {
	text string
	f    float64
}{{"1.5", 1.5}, {"1e3", 1000}, {"2147483648.0", 2147483648}, {"1e39", 1e39}, {"-3.5e38", -3.5e38}, {"-2147483648.0", -2147483648}, {"1e-50", 1e-50}, {"0.1", 0.1}}

// leaf draws a written leaf value for a position whose base type is t.
// form 0: a well-kinded value; other forms: values of other kinds.
func symLeaf(name string, t *ty, maxDigits int, allowVarOnly bool) *wv {
	for t.k == tNonNull {
		t = t.of
	}
	nforms := 4
	nfloats := len(c04FloatLits)
	if maxDigits <= 1 {
		nfloats = 3
	}
	switch sym.Choice(name+".form", nforms) {
	case 1:
		return &wv{k: wNull}
	case 2: // a value of another kind
		switch t.k {
		case tInt, tFloat, tBool:
			return &wv{k: wStr, s: "a"}
		case tEnum:
			return &wv{k: wStr, s: "A"}
		default:
			return &wv{k: wBool, b: sym.Bool(name + ".b")}
		}
	case 3: // a float where an integer is expected, an integer elsewhere
		switch t.k {
		case tInt:
			fl := c04FloatLits[sym.Choice(name+".float", nfloats)]
			return &wv{k: wFloat, f: fl.f, text: fl.text}
		case tFloat:
			return symIntLit(name, maxDigits)
		case tID:
			if maxDigits < 0 {
				return symIntLit(name, -1)
			}
			return symIntLit(name, 2)
		default:
			if maxDigits < 0 {
				return symIntLit(name, -1)
			}
			return symIntLit(name, 1)
		}
	}
	switch t.k {
	case tInt:
		return symIntLit(name, maxDigits)
	case tFloat:
		fl := c04FloatLits[sym.Choice(name+".float", nfloats)]
		return &wv{k: wFloat, f: fl.f, text: fl.text}
	case tString, tID:
		s := sym.String(name, 1)
		sym.Assume(isNameByte(s[0]))
		return &wv{k: wStr, s: s}
	case tBool:
		return &wv{k: wBool, b: sym.Bool(name + ".b")}
	case tEnum:
		if sym.Bool(name + ".two") {
			s := sym.String(name, 2)
			sym.Assume(sym.And(isNameByte(s[0]), isNameByte(s[1])))
			return &wv{k: wSym, s: s}
		}
		s := sym.String(name, 1)
		sym.Assume(isNameByte(s[0]))
		return &wv{k: wSym, s: s}
	}
	return &wv{k: wNull}
}

type c04Node struct {
	calls int
	got   interface{}
	has   bool
}

func (n *c04Node) Resolve(field *ggql.Field, args map[string]interface{}) (interface{}, error) {
	if field.Name == "query" {
		return n, nil
	}
	n.calls++
	n.got, n.has = args["x"]
	return int32(1), nil
}

func c04Root(n *c04Node) *ggql.Root {
	root := ggql.NewRoot(n)
	if err := root.ParseString(c04Schema); err != nil {
		panic("harness schema rejected: " + err.Error())
	}
	return root
}

// c04Deliver sends written value w for argument x of field (declared type t,
// SDL text tText) through an E-chosen source and checks the obligations.
//
//	source 0: literal            f(x: LIT)
//	source 1: variable           query($v: T){f(x:$v)}   vars = {v: value}
//	source 2: variable default   query($v: T = LIT){f(x:$v)}   no vars
//	source 3: default overridden query($v: T = OTHER){f(x:$v)} vars = {v: value}
//
// c04Source draws the source (see c04Deliver) and, for variables, the Go
// kind integers travel in.
func c04Source(sources int, kinds []int) (src, ik int) {
	src = sym.Choice("source", sources)
	if src == 1 || src == 3 {
		ik = kinds[sym.Choice("int kind", len(kinds))]
	}
	return
}

func c04Deliver(field string, t *ty, tText string, w *wv, other string, src, ik int) {
	n := &c04Node{}
	root := c04Root(n)
	var doc string
	var vars map[string]interface{}
	// acceptance of a coercible value is demanded for what the scanner and a
	// JSON decoder produce (literals; float64 and int64 in a variables map);
	// other Go kinds in a variables map may be refused
	strict := true
	switch src {
	case 0:
		doc = "{" + field + "(x:" + w.literal() + ")}"
	case 1:
		doc = "query($v:" + tText + "){" + field + "(x:$v)}"
		var val interface{}
		strict = ik == 0 || ik == 2
		w, val = w.viaKind(ik)
		vars = map[string]interface{}{"v": val}
	case 2:
		doc = "query($v:" + tText + "=" + w.literal() + "){" + field + "(x:$v)}"
		if sym.Bool("empty vars") {
			vars = map[string]interface{}{}
		}
	default:
		doc = "query($v:" + tText + "=" + other + "){" + field + "(x:$v)}"
		var val interface{}
		strict = ik == 0 || ik == 2
		w, val = w.viaKind(ik)
		vars = map[string]interface{}{"v": val}
	}
	sym.Observe("doc", doc)
	res := root.ResolveString(doc, "", vars)
	sym.Observe("calls", n.calls)
	sym.Observe("errs", res["errors"] != nil)
	c04Judge(n, res, t, w, strict)
}

func c04Judge(n *c04Node, res map[string]interface{}, t *ty, w *wv, strict bool) {
	want, ok, lenient := refCoerce(t, w)
	errs, _ := res["errors"].([]interface{})
	if n.calls > 0 {
		sym.Cover("resolver invoked")
		sym.Assert(n.calls == 1, "resolver invoked once")
		if lenient {
			// open cases (a single value for a list, an ID integer in a variable):
			// whatever is handed over must still have the declared shape
			sym.Assert(conforms(t, n.got), "argument conforms and denotes the written value")
			return
		}
		sym.Assert(ok, "value that cannot be coerced never reaches the resolver")
		sym.Assert(sameArg(n.got, want), "argument conforms and denotes the written value")
		return
	}
	sym.Cover("resolver not invoked")
	sym.Assert(len(errs) > 0, "a refused argument is reported as an error")
	if !lenient && strict {
		sym.Assert(!ok, "coercible value accepted")
	}
}

// C04_args_scalar: scalar-typed arguments (nullable and non-null) from every source.
func C04_args_scalar() {
	cases := []struct {
		field, text string
		t           *ty
	}{
		{"fi", "Int", tyInt}, {"fn", "Int!", nn(tyInt)}, {"ff", "Float", tyFloat}, {"fb", "Boolean", tyBool},
		{"fs", "String", tyStr}, {"fd", "ID", tyID}, {"fe", "En", tyEn},
	}
	c := cases[sym.Choice("case", len(cases))]
	maxDigits := 2
	w := symLeaf("w", c.t, maxDigits, false)
	other := "1"
	switch c.t.k {
	case tFloat:
		other = "2.5"
	case tBool:
		other = "true"
	case tString, tID:
		other = `"zz"`
	case tEnum:
		other = "A"
	}
	if c.t.k == tNonNull {
		other = "1"
	}
	sym.Budget(3_000_000)
	src, ik := c04Source(4, []int{0, 1, 2, 3})
	c04Deliver(c.field, c.t, c.text, w, other, src, ik)
}

// C04_args_kind: a value of another structural kind - a symbol, a list or an
// object - written where the declared type does not take one: as the whole
// argument, as a list element or as an input-object field, from every source.
// (Some of the combinations are well-kinded - a symbol for an enum, a list for
// a list - and must then be accepted.)
func C04_args_kind() {
	cases := []struct {
		field, text string
		t           *ty
		other       string
	}{
		{"fi", "Int", tyInt, "1"}, {"fn", "Int!", nn(tyInt), "1"}, {"ff", "Float", tyFloat, "2.5"}, {"fb", "Boolean", tyBool, "true"},
		{"fs", "String", tyStr, `"zz"`}, {"fd", "ID", tyID, `"zz"`}, {"fe", "En", tyEn, "A"},
		{"fl", "[Int]", lst(tyInt), "[1]"}, {"fle", "[En!]", lst(nn(tyEn)), "[A]"}, {"fll", "[[Int]]", lst(lst(tyInt)), "[[1]]"},
		{"fo", "In", tyIn, "{r:1}"}, {"flo", "[In]", lst(tyIn), "[{r:1}]"},
	}
	c := cases[sym.Choice("case", len(cases))]
	one := func() *wv { return &wv{k: wInt, i: 1, text: "1"} }
	var alien *wv
	switch sym.Choice("written kind", 4) {
	case 0:
		alien = &wv{k: wSym, s: "A"}
	case 1:
		alien = &wv{k: wList, list: []*wv{one()}}
	case 2:
		alien = &wv{k: wObj, keys: []string{"r"}, obj: map[string]*wv{"r": one()}}
	default:
		alien = &wv{k: wList, list: []*wv{{k: wSym, s: "A"}}}
	}
	w := alien
	switch sym.Choice("position", 3) {
	case 1: // as a list element
		w = &wv{k: wList, list: []*wv{alien}}
	case 2: // as the value of input field o: Int
		w = &wv{k: wObj, keys: []string{"r", "o"}, obj: map[string]*wv{"r": one(), "o": alien}}
	}
	sym.Budget(3_000_000)
	src, ik := c04Source(4, []int{0, 2})
	c04Deliver(c.field, c.t, c.text, w, c.other, src, ik)
}

// C04_args_omitted: an argument left out entirely, or a variable left unset.
func C04_args_omitted() {
	n := &c04Node{}
	root := c04Root(n)
	docs := []struct {
		doc      string
		nullable bool
	}{
		{"{fi}", true}, {"{fn}", false}, {"{fln}", false}, {"{fon}", false}, {"{fo}", true},
		{"query($v:Int){fi(x:$v)}", true}, {"query($v:Int){fn(x:$v)}", false}, {"query($v:Int!){fn(x:$v)}", false},
		{"query($v:[Int!]!){fln(x:$v)}", false}, {"query($v:In!){fon(x:$v)}", false},
		{"{fn(x:null)}", false}, {"{fln(x:null)}", false}, {"{fon(x:null)}", false},
	}
	c := docs[sym.Choice("doc", len(docs))]
	var vars map[string]interface{}
	switch sym.Choice("vars", 3) {
	case 1:
		vars = map[string]interface{}{}
	case 2:
		vars = map[string]interface{}{"v": nil}
	}
	res := root.ResolveString(c.doc, "", vars)
	errs, _ := res["errors"].([]interface{})
	if c.nullable {
		sym.Assert(n.calls == 1 && n.got == nil, "omitted nullable argument is null")
		return
	}
	sym.Assert(n.calls == 0, "resolver not invoked without its required argument")
	sym.Assert(len(errs) > 0, "missing required argument reported")
}

// symList draws a written list value for element type et: E length 0..2,
// elements S leaves (or nested lists one level down).
func symList(name string, et *ty, maxLen, maxDigits int) *wv {
	l := sym.Choice(name+".len", maxLen+1)
	w := &wv{k: wList}
	for k := 0; k < l; k++ {
		en := name + "." + string(rune('0'+k))
		base := et
		for base.k == tNonNull {
			base = base.of
		}
		if base.k == tList {
			if sym.Bool(en + ".null") {
				w.list = append(w.list, &wv{k: wNull})
			} else {
				w.list = append(w.list, symList(en, base.of, 1, maxDigits))
			}
		} else if base.k == tInput {
			w.list = append(w.list, symObj(en, base, maxDigits))
		} else {
			w.list = append(w.list, symLeaf(en, et, maxDigits, false))
		}
	}
	return w
}

// C04_args_list: list-typed arguments in every wrapper combination.
func C04_args_list() {
	cases := []struct {
		field, text string
		t           *ty
	}{
		{"fl", "[Int]", lst(tyInt)}, {"fli", "[Int!]", lst(nn(tyInt))}, {"fln", "[Int!]!", nn(lst(nn(tyInt)))},
		{"flq", "[Int]!", nn(lst(tyInt))}, {"fll", "[[Int]]", lst(lst(tyInt))}, {"fle", "[En!]", lst(nn(tyEn))},
	}
	c := cases[sym.Choice("case", len(cases))]
	maxDigits := 1 // quick: one S digit per element; thorough: the boundary templates too
	if sym.Thorough() {
		maxDigits = 2
	}
	maxLen := 2
	var w *wv
	switch sym.Choice("value", 3) {
	case 0:
		base := c.t
		for base.k == tNonNull {
			base = base.of
		}
		w = symList("w", base.of, maxLen, maxDigits)
	case 1:
		w = &wv{k: wNull}
	default: // a bare value where a list is expected
		w = symIntLit("w", 1)
	}
	sym.Budget(4_000_000)
	src, ik := c04Source(4, c04Kinds())
	c04Deliver(c.field, c.t, c.text, w, "[1]", src, ik)
}

// symObj draws a written input object for input type t.  One E-chosen
// "focus" field gets the full variety of written values (null, other kinds,
// boundary integers, nested lists and objects); every other field is either
// left out or carries a well-kinded S value (S presence), so that required
// fields, defaults and undeclared keys interact with every focus value
// without multiplying the leaf varieties with each other (the other fields
// follow one of three E presence patterns and carry one S digit each).
func symObj(name string, t *ty, rich int) *wv {
	w := &wv{k: wObj, obj: map[string]*wv{}}
	focus := sym.Choice(name+".focus", len(t.fields)+1) // last: none
	// the other fields: 0 all present, 1 all left out, 2 only the required ones
	others := sym.Choice(name+".others", 3)
	for k, f := range t.fields {
		fn := name + "." + f.name
		base := f.t
		for base.k == tNonNull {
			base = base.of
		}
		var e *wv
		if k != focus {
			if others == 1 || others == 2 && f.t.k != tNonNull {
				continue
			}
			digit := func() *wv {
				if rich < 0 { // integers travel as float64: keep the bystanders concrete
					return &wv{k: wInt, i: 3, text: "3"}
				}
				d := sym.String(fn, 1)
				sym.Assume(sym.And(d[0] >= '0', d[0] <= '9'))
				return &wv{k: wInt, i: int64(d[0] - '0'), text: d}
			}
			switch base.k {
			case tList:
				e = &wv{k: wList, list: []*wv{digit()}}
			case tInput:
				e = &wv{k: wObj, keys: []string{"r"}, obj: map[string]*wv{"r": digit()}}
			case tEnum:
				e = &wv{k: wSym, s: "BC"}
			default:
				e = digit()
			}
		} else {
			switch base.k {
			case tList:
				if sym.Bool(fn + ".null") {
					e = &wv{k: wNull}
				} else {
					ml := 2
					for eb := base.of; eb != nil; eb = eb.of {
						if eb.k == tInput {
							ml = 1 // a list of input objects: one element (each has the full variety)
						}
					}
					er := 1
					if rich < 0 {
						er = -1
					}
					e = symList(fn, base.of, ml, er)
				}
			case tInput:
				if sym.Bool(fn + ".null") {
					e = &wv{k: wNull}
				} else {
					er := 1
					if rich < 0 {
						er = -1
					}
					e = symObj(fn, base, er)
				}
			default:
				e = symLeaf(fn, f.t, rich, false)
			}
		}
		w.keys = append(w.keys, f.name)
		w.obj[f.name] = e
	}
	if focus == len(t.fields) && sym.Bool(name+".extra") {
		w.keys = append(w.keys, "zz")
		w.obj["zz"] = &wv{k: wInt, i: 1, text: "1"}
	}
	return w
}

// c04Kinds: Go kinds integers travel in inside a variables map (composite
// harnesses): float64 and int64 (quick), plus int and int32 (thorough); the
// scalar harness runs all four in both tiers.
func c04Kinds() []int {
	if sym.Thorough() {
		return []int{0, 1, 2, 3}
	}
	return []int{0, 2}
}

// C04_args_input: input-object arguments: only declared fields, required
// fields present, defaults filled in, nested lists coerced element-wise.
func C04_args_input() {
	cases := []struct {
		field, text string
		t           *ty
	}{
		{"fo", "In", tyIn}, {"flo", "[In]", lst(tyIn)}, {"fp", "Pt", tyPt}, {"fon", "In!", nn(tyIn)},
	}
	ncases := len(cases) - 1 // quick: without In! (it differs from In at the top level only)
	maxDigits := 1
	if sym.Thorough() {
		ncases = len(cases)
		maxDigits = 2
	}
	c := cases[sym.Choice("case", ncases)]
	src, ik := c04Source(3, c04Kinds())
	if src == 1 && ik == 0 {
		maxDigits = -maxDigits
	}
	var w *wv
	base := c.t
	for base.k == tNonNull {
		base = base.of
	}
	if base.k == tList {
		w = symList("w", base.of, 1, maxDigits)
	} else {
		w = symObj("w", base, maxDigits)
	}
	sym.Budget(6_000_000)
	c04Deliver(c.field, c.t, c.text, w, "{r:1}", src, ik)
}

// C04_args_nested_var: variables used inside list and input-object literals.
func C04_args_nested_var() {
	n := &c04Node{}
	root := c04Root(n)
	cases := []struct {
		doc  string
		t    *ty
		mk   func(v *wv) *wv
		vTyp *ty
	}{
		{"query($v:Int){fl(x:[1 $v])}", lst(tyInt), func(v *wv) *wv {
			return &wv{k: wList, list: []*wv{{k: wInt, i: 1, text: "1"}, v}}
		}, tyInt},
		{"query($v:Int){fln(x:[$v 2])}", nn(lst(nn(tyInt))), func(v *wv) *wv {
			return &wv{k: wList, list: []*wv{v, {k: wInt, i: 2, text: "2"}}}
		}, tyInt},
		{"query($v:Int){fo(x:{r:$v})}", tyIn, func(v *wv) *wv {
			return &wv{k: wObj, keys: []string{"r"}, obj: map[string]*wv{"r": v}}
		}, tyInt},
		{"query($v:Int){fo(x:{r:1 l:[$v]})}", tyIn, func(v *wv) *wv {
			return &wv{k: wObj, keys: []string{"r", "l"}, obj: map[string]*wv{"r": {k: wInt, i: 1, text: "1"}, "l": {k: wList, list: []*wv{v}}}}
		}, tyInt},
		{"query($v:In){flo(x:[$v])}", lst(tyIn), func(v *wv) *wv {
			return &wv{k: wList, list: []*wv{v}}
		}, tyIn},
	}
	c := cases[sym.Choice("case", len(cases))]
	var v *wv
	var val interface{}
	strict := true
	if c.vTyp.k == tInput {
		ik := sym.Choice("int kind", 4)
		strict = ik == 0 || ik == 2
		rich := 1
		if ik == 0 {
			rich = -1 // integers travel as float64: concrete digits (see C04_args_input)
		}
		v = symObj("v", c.vTyp, rich)
		v, val = v.viaKind(ik)
	} else {
		switch sym.Choice("v kind", 4) {
		case 0:
			// concrete boundary floats (the full-width float64 -> Int obligation is
			// C04_IntIn's; repeating it behind the resolver stalls the solver)
			fs := []float64{1.5, 7, -0.0, 2147483647, 2147483648, -2147483649, 1e39, math.NaN(), math.Inf(1)}
			f := fs[sym.Choice("v float", len(fs))]
			v, val = &wv{k: wFloat, f: f}, f
		case 1:
			i := sym.Int64("v")
			v, val = &wv{k: wInt, i: i}, i
		case 2:
			v, val = &wv{k: wNull}, nil
		default:
			v, val = &wv{k: wStr, s: "a"}, "a"
		}
	}
	sym.Budget(4_000_000)
	res := root.ResolveString(c.doc, "", map[string]interface{}{"v": val})
	sym.Observe("calls", n.calls)
	c04Judge(n, res, c.t, c.mk(v), strict)
}

// C04_args_pair: a field with several arguments, exactly one of them written
// with a value that cannot be coerced (E position: first, middle or last in
// declaration order; any order in the request): the failure of one argument
// is not forgotten because a later one is fine.
func C04_args_pair() {
	n := &c04Node{}
	root := c04Root(n)
	bad := sym.Choice("bad argument", 4) // 3: none
	vals := []string{"1", "2", "A"}
	wrong := [][]string{{`"s"`, "4294967297", "1.5", "$u"}, {"true", "-2147483649", "[1]"}, {"Z", `"A"`, "1"}}
	if bad < 3 {
		vals[bad] = wrong[bad][sym.Choice("bad value", len(wrong[bad]))]
	}
	names := []string{"x", "y", "z"}
	perm := [][]int{{0, 1, 2}, {2, 1, 0}, {1, 2, 0}}[sym.Choice("written order", 3)]
	args := ""
	for _, k := range perm {
		args += names[k] + ":" + vals[k] + " "
	}
	// (the variable is declared only where it is used: a required variable
	// that is declared and not supplied is an error of its own)
	doc := "{f2(" + args + ")}"
	if bad == 0 && vals[0] == "$u" {
		doc = "query($u:Int!)" + doc
	}
	sym.Observe("doc", doc)
	res := root.ResolveString(doc, "", nil)
	errs, _ := res["errors"].([]interface{})
	if bad == 3 {
		sym.Assert(n.calls == 1 && len(errs) == 0, "well-typed arguments accepted")
		return
	}
	sym.Assert(n.calls == 0, "value that cannot be coerced never reaches the resolver")
	sym.Assert(len(errs) > 0, "a refused argument is reported as an error")
}

// C04_args_reuse: one parsed executable resolved twice with different
// variable values (S): what the resolver is handed on the second call
// denotes what the client wrote for THAT call - a variable nested in a list
// or object literal is not frozen at its first value, and a literal refused
// once is refused again.
func C04_args_reuse() {
	cases := []struct {
		field, doc string
		t          *ty
		mk         func(v *wv) *wv // the written value given the variable's value
	}{
		{"fll", "query($v:Int){fll(x:[[1 $v]])}", lst(lst(tyInt)), func(v *wv) *wv {
			return &wv{k: wList, list: []*wv{{k: wList, list: []*wv{{k: wInt, i: 1, text: "1"}, v}}}}
		}},
		{"flo", "query($v:Int){flo(x:[{r:$v}])}", lst(tyIn), func(v *wv) *wv {
			return &wv{k: wList, list: []*wv{{k: wObj, keys: []string{"r"}, obj: map[string]*wv{"r": v}}}}
		}},
		{"fp", "query($v:Int){fp(x:{q:[{r:$v o:2}]})}", tyPt, func(v *wv) *wv {
			return &wv{k: wObj, keys: []string{"q"}, obj: map[string]*wv{"q": {k: wList, list: []*wv{{k: wObj, keys: []string{"r", "o"},
				obj: map[string]*wv{"r": v, "o": {k: wInt, i: 2, text: "2"}}}}}}}
		}},
		{"fl", "query($v:Int){fl(x:[1 \"two\" $v])}", lst(tyInt), func(v *wv) *wv {
			return &wv{k: wList, list: []*wv{{k: wInt, i: 1, text: "1"}, {k: wStr, s: "two"}, v}}
		}},
		{"fl", "query($v:Int){fl(x:[1 \"two\"])}", lst(tyInt), func(v *wv) *wv {
			return &wv{k: wList, list: []*wv{{k: wInt, i: 1, text: "1"}, {k: wStr, s: "two"}}}
		}},
	}
	c := cases[sym.Choice("case", len(cases))]
	n := &c04Node{}
	root := c04Root(n)
	exe, err := root.ParseExecutableString(c.doc)
	sym.Assert(err == nil, "document accepted")
	sym.Budget(4_000_000)
	for call := 0; call < 2; call++ {
		var v *wv
		vars := map[string]interface{}{}
		if sym.Choice("variable supplied", 2) == 1 {
			x := sym.Int32("v")
			v = &wv{k: wInt, i: int64(x)}
			vars["v"] = int64(x)
		} else {
			v = &wv{k: wNull}
		}
		n.calls, n.got, n.has = 0, nil, false
		data, rerr := root.ResolveExecutable(exe, "", vars)
		res := map[string]interface{}{"data": data}
		if rerr != nil {
			res["errors"] = ggql.FormErrorsResult(rerr)
		}
		c04Judge(n, res, c.t, c.mk(v), true)
	}
}

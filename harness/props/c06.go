package props

import (
	"verif/harness/sym"
)

// invocation is one resolver call in execution order with the response path
// it produces a value for.
type invocation struct {
	path    []interface{}
	viaFrag bool // reached through a named fragment spread
	leaf    bool
	nodeID  string
	field   string
}

// walk mirrors the resolver's execution order over the harness's own shape
// tree and data: selections in document order, fragments expanded in place,
// lists element by element.
func (sh *shape) walk(n *node, sels []*sel, path []interface{}, viaFrag bool, out *[]invocation) {
	for _, s := range sels {
		switch s.kind {
		case selInline:
			if s.cond == "" || s.cond == n.typ {
				sh.walk(n, s.sub, path, viaFrag, out)
			}
		case selSpread:
			if f := sh.frags[s.frag]; f.cond == n.typ {
				sh.walk(n, f.sub, path, true, out)
			}
		case selField:
			if s.name == "__typename" {
				continue
			}
			p := append(append([]interface{}{}, path...), s.key())
			*out = append(*out, invocation{path: p, viaFrag: viaFrag, leaf: len(s.sub) == 0, nodeID: n.id, field: s.name})
			switch s.name {
			case "o":
				if o := n.getO(); o != nil {
					sh.walk(o, s.sub, p, viaFrag, out)
				}
			case "l":
				for i, e := range n.getL() {
					if e != nil {
						sh.walk(e, s.sub, append(append([]interface{}{}, p...), i), viaFrag, out)
					}
				}
			}
		}
	}
}

// setNull returns data with the position addressed by path replaced by nil.
func setNull(v interface{}, path []interface{}) interface{} {
	if len(path) == 0 {
		return nil
	}
	switch k := path[0].(type) {
	case string:
		m := v.(map[string]interface{})
		out := map[string]interface{}{}
		for key, e := range m {
			out[key] = e
		}
		out[k] = setNull(m[k], path[1:])
		return out
	case int:
		l := v.([]interface{})
		out := append([]interface{}{}, l...)
		out[k] = setNull(l[k], path[1:])
		return out
	}
	return v
}

func hasDuplicateKeys(sh *shape, typ string, sels []*sel) bool {
	var cs []*collected
	sh.collectFields(typ, sels, &cs)
	for _, c := range cs {
		if len(c.sels) > 1 {
			return true
		}
		if len(c.sels[0].sub) > 0 && hasDuplicateKeys(sh, "Obj", c.sels[0].sub) {
			return true
		}
	}
	return false
}

// C06_paths: every single resolver invocation made to fail in turn: exactly
// one error entry per failure (member), whose path addresses the position;
// null there; every other position as without the failure.
func C06_paths() {
	budget, depth := 3, 2
	// thorough: the larger shapes with plain errors and bare groups, and the
	// quick shapes with wrapped groups (all three kinds over the larger shapes
	// did not fit 30 minutes)
	groupKinds, firstKind := 3, 0
	if sym.Thorough() {
		if sym.Choice("family", 2) == 0 {
			budget, depth, groupKinds = 4, 3, 2
		} else {
			groupKinds, firstKind = 1, 2
		}
	}
	sh := genShape(budget, depth)
	sym.Assume(!hasDuplicateKeys(sh, "Query", sh.sels))
	var log []string
	q := newGraph(&log, 2)
	plan := &failPlan{at: -1}
	for _, n := range []*node{q, q.oAlt, q.lAlts[3][0]} {
		n.fail = plan
	}
	doc := sh.render()
	sym.Observe("doc", doc)
	sym.Budget(6_000_000)

	base := kitRoot(q).ResolveString(doc, "", nil)
	calls := []invocation{{field: "query"}} // the operation root itself is resolved first
	sh.walk(q, sh.sels, nil, false, &calls)
	sym.Assert(plan.count == len(calls), "reference walk predicts the number of resolver calls")
	if len(calls) == 0 {
		return
	}
	k := sym.Choice("failAt", len(calls))
	gk := firstKind + sym.Choice("group", groupKinds) // 0: plain error, 1: Errors group of 2 members, 2: such a group wrapped in another error
	group := 0
	if gk > 0 {
		group = 2
	}
	plan.at, plan.count, plan.group, plan.wrap = k, 0, group, gk == 2
	res := kitRoot(q).ResolveString(doc, "", nil)
	sym.Observe("res", res)
	inv := calls[k]
	if sym.Known("C06-fragment-label-in-path", inv.viaFrag) {
		return
	}
	want := 1
	if group == 2 {
		want = 2
	}
	errs, _ := res["errors"].([]interface{})
	sym.Assert(len(errs) == want, "one error entry per failure member")
	for _, e := range errs {
		em, _ := e.(map[string]interface{})
		if len(inv.path) == 0 {
			_, hasPath := em["path"]
			sym.Assert(!hasPath, "failure of the operation root has no path")
			continue
		}
		sym.Assert(sym.DeepEqual(em["path"], interface{}(inv.path)), "error path addresses the failing position")
	}
	sym.Assert(sym.DeepEqual(res["data"], setNull(base["data"], inv.path)), "null at the position, everything else unchanged")
}

package props

// C13 - schema validation accepts well-formed schemas and rejects each rule
// violation.  A well-formed base schema plus one definition from a rule
// catalogue (every rule in several positions and under several wrappers;
// accepted variants next to the rejected ones); names at the position a rule
// is about are S tokens, so uniqueness and the reserved-prefix rule are
// decided for every name of that length.  Oracle: the catalogue's verdict, a
// function of the symbolic names, and - for accepted schemas - an independent
// re-check of the loaded types through the public API.

import (
	"github.com/uhn/ggql/pkg/ggql"

	"verif/harness/sym"
)

const c13Base = `
interface I { x: Int a(p: Int): String }
type Obj implements I { x: Int a(p: Int): String o: Obj }
union U = Obj | Query
enum En { A B }
input In { f: Int g: En h: In }
directive @d(n: Int) on FIELD_DEFINITION | OBJECT | ENUM_VALUE
scalar Sc
type Query { o: Obj i: I u: U e: En s: Sc f(in: In, e: En = A): Int @d(n: 1) }
`

type c13Case struct {
	extra  string // § / ¶ = first / second symbolic name
	accept int    // 1: accepted  0: rejected  2: rejected iff the two names are equal  3: rejected iff the name starts with __  4: rejected (directive location on a field-level position: recorded finding)
	names  string // the rejection must name this ("" = the symbolic name / not checked)
}

var c13Wrappers = []string{"Nope", "Nope!", "[Nope]", "[Nope!]!", "[[Nope]]"}

var c13Cases = []c13Case{
	// accepted extensions of the base
	{"type T1 { f(a: En, b: Sc, c: In, d: [In!]!): U }", 1, ""},
	{"type T1 implements I { x: Int! a(p: Int): String }", 1, ""},
	{"interface J { o: I } type T1 implements J { o: Obj }", 1, ""},
	{"type T1 implements I { x: Int a(p: Int, q: Int): String }", 1, ""},
	{"type T1 @d(n: 2) { x: Int } enum E2 { A @d }", 1, ""},
	{"type T1 { § : Int ¶ : Int }", 2, ""},
	{"type T1 { f(§ : Int ¶ : Int): Int }", 2, ""},
	{"enum T1 { § ¶ }", 2, ""},
	{"input T1 { § : Int ¶ : Int }", 2, ""},
	{"type T1 { §§§ : Int }", 3, ""},
	{"enum T1 { §§§ }", 3, ""},
	{"input T1 { §§§ : Int }", 3, ""},
	{"type T1 { f(§§§ : Int): Int }", 3, ""},
	{"type §§§ { x: Int }", 3, ""},
	// the same rules inside extensions, of the schema's own types and of the built-in ones
	{"extend type __Type { extra: Int }", 1, ""},
	{"extend type __Type { §§§ : Int }", 3, ""},
	{"extend type Query { §§§ : Int }", 3, ""},
	{"extend type Obj { f(§§§ : Int): Int }", 3, ""},
	{"extend enum __TypeKind { §§§ }", 3, ""},
	{"extend type __Field { f: In }", 0, ""},
	{"extend type __Schema { f(a: Obj): Int }", 0, ""},
	{"extend type Obj { f: In }", 0, ""},
	{"extend input In { z: Obj }", 0, ""},
	{"extend enum En { null }", 0, ""},
	{"extend enum __DirectiveLocation { true }", 0, ""},
	// a violation followed by a valid directive use further on in the same definition
	{"enum T1 { true maybe @deprecated }", 0, ""},
	{"enum T1 { §§§ ok @deprecated }", 3, ""},
	{"enum T1 { A @d(zz: 1) B @deprecated C @d(n: 1) }", 0, ""},
	{"type T1 { §§§ : Int ok: Int @deprecated z: Int @d }", 3, ""},
	{"type T1 { f(§§§ : Int): Int @d ok: Int @deprecated }", 3, ""},
	{"type T1 { f: In g: Int @deprecated }", 0, ""},
	// references
	{"type T1 { f: ¤ }", 0, "Nope"},
	{"type T1 { f(a: ¤): Int }", 0, "Nope"},
	{"input T1 { f: ¤ }", 0, "Nope"},
	{"union T1 = Nope", 0, "Nope"},
	{"type T1 implements Nope { x: Int }", 0, "Nope"},
	{"directive @t(a: ¤) on FIELD", 0, "Nope"},
	{"interface T1 { f: ¤ }", 0, "Nope"},
	// duplicates
	{"type Obj { y: Int }", 0, "Obj"},
	{"directive @d on FIELD", 0, "d"},
	{"type T1 { x: Int } enum T1 { A }", 0, "T1"},
	// reserved names
	{"enum T1 { true }", 0, "true"},
	{"enum T1 { A false }", 0, "false"},
	{"enum T1 { null }", 0, "null"},
	{"directive @__t on FIELD", 0, "__t"},
	// input / output positions
	{"type T1 { f: In }", 0, "f"},
	{"type T1 { f: [In!]! }", 0, ""},
	{"type T1 { f(a: Obj): Int }", 0, ""},
	{"type T1 { f(a: [[I]]): Int }", 0, ""},
	{"input T1 { f: Obj }", 0, ""},
	{"input T1 { f: U }", 0, ""},
	{"input T1 { f: [I!] }", 0, ""},
	{"directive @t(a: Obj) on FIELD", 0, ""},
	{"interface T1 { f: In }", 0, ""},
	// interface conformance
	{"type T1 implements I { x: Int }", 0, "I"},
	{"type T1 implements I { x: Int a(p: Int): Int }", 0, "I"},
	{"type T1 implements I { x: Int a(p: Int, q: Int!): String }", 0, "I"},
	{"type T1 implements I { x: Int a(p: String): String }", 0, "I"},
	{"type T1 implements I { x: Int a(p: Int!): String }", 0, "I"},
	{"interface K { k(l: [Int]): Int } type T1 implements K { k(l: [Int!]): Int }", 0, "K"},
	{"interface K { k(l: [Int]): Int } type T1 implements K { k(l: [Int]!): Int }", 0, "K"},
	{"interface K { k(l: [Int!]): Int } type T1 implements K { k(l: [Int]): Int }", 0, "K"},
	{"type T1 implements I { x: Int a: String }", 0, "I"},
	{"type T1 implements I { x: String a(p: Int): String }", 0, "I"},
	{"type T1 implements Obj { x: Int }", 0, "T1"},
	{"interface J { o: Obj } type T1 implements J { o: I }", 0, "J"},
	// unions
	{"union T1 = En", 0, "En"},
	{"union T1 = Obj | I", 0, "I"},
	{"union T1 = Sc", 0, "Sc"},
	{"union T1 = In", 0, "In"},
	// empty definitions
	{"type T1 {}", 0, ""},
	{"interface T1 {}", 0, ""},
	{"enum T1 {}", 0, ""},
	{"input T1 {}", 0, ""},
	// directive uses
	{"type T1 @nope { x: Int }", 0, "nope"},
	{"enum T1 @d { A }", 0, "d"},
	{"type T1 { x: Int @d(zz: 1) }", 0, "zz"},
	{"type T1 { x: Int @d(n: \"s\") }", 0, ""},
	{"input T1 { f: Int @d }", 4, "d"},
	{"type T1 { f(a: Int @d): Int }", 4, "d"},
	{"type T1 { f(a: Int @d(zz: 1)): Int }", 0, "zz"},
	{"input T1 { f: Int @d(n: \"s\") }", 0, ""},
	{"directive @c1(a: Int @c1) on ARGUMENT_DEFINITION", 0, "c1"},
	{"directive @c1(a: Int @c2) on ARGUMENT_DEFINITION directive @c2(b: Int @c1) on ARGUMENT_DEFINITION", 0, ""},
	{"directive @c2(b: Int @c2) on ARGUMENT_DEFINITION directive @c1(a: Int @c2) on ARGUMENT_DEFINITION", 0, "c2"},
	{"directive @c1(a: Int @c2) on ARGUMENT_DEFINITION directive @c2(b: Int @c3) on ARGUMENT_DEFINITION directive @c3(c: Int @c2) on ARGUMENT_DEFINITION", 0, ""},
}

// c13Recheck walks the loaded schema through the public API: every name is a
// GraphQL name that is not reserved, names are unique in their scope, every
// referenced type is a type of the root, and input / output positions hold
// input / output types.
func c13Recheck(root *ggql.Root) bool {
	ok := true
	goodName := func(n string) bool {
		if len(n) == 0 || (len(n) >= 2 && n[0] == '_' && n[1] == '_') {
			return false
		}
		for i := 0; i < len(n); i++ {
			c := n[i]
			if !(c == '_' || (c >= 'a' && c <= 'z') || (c >= 'A' && c <= 'Z') || (i > 0 && c >= '0' && c <= '9')) {
				return false
			}
		}
		return true
	}
	base := func(t ggql.Type) ggql.Type { return ggql.BaseType(t) }
	isInput := func(t ggql.Type) bool { return base(t) != nil && !isObjectLike(base(t)) } // scalars of any Go representation, enums, input objects
	isOutput := func(t ggql.Type) bool {
		if _, in := base(t).(*ggql.Input); in {
			return false
		}
		return true
	}
	known := func(t ggql.Type) bool {
		b := base(t)
		return b != nil && root.GetType(b.Name()) == b
	}
	fields := func(fds []*ggql.FieldDef) {
		seen := map[string]bool{}
		for _, f := range fds {
			ok = ok && goodName(f.N) && !seen[f.N] && known(f.Type) && isOutput(f.Type)
			seen[f.N] = true
			aseen := map[string]bool{}
			for _, a := range f.Args() {
				ok = ok && goodName(a.N) && !aseen[a.N] && known(a.Type) && isInput(a.Type)
				aseen[a.N] = true
			}
		}
	}
	tseen := map[string]bool{}
	for _, t := range root.Types() {
		if t.Core() {
			continue
		}
		ok = ok && goodName(t.Name()) && !tseen[t.Name()]
		tseen[t.Name()] = true
		switch tt := t.(type) {
		case *ggql.Object:
			ok = ok && len(tt.Fields()) > 0
			fields(tt.Fields())
			for _, i := range tt.Interfaces {
				_, isI := i.(*ggql.Interface)
				ok = ok && isI && known(i)
			}
		case *ggql.Interface:
			ok = ok && len(tt.Fields()) > 0
			fields(tt.Fields())
		case *ggql.Union:
			ok = ok && len(tt.Members) > 0
			for _, m := range tt.Members {
				_, isO := m.(*ggql.Object)
				ok = ok && isO && known(m)
			}
		case *ggql.Enum:
			ok = ok && len(tt.Values()) > 0
			vseen := map[string]bool{}
			for _, v := range tt.Values() {
				n := string(v.Value)
				ok = ok && goodName(n) && !vseen[n] && n != "true" && n != "false" && n != "null"
				vseen[n] = true
			}
		case *ggql.Input:
			ok = ok && len(tt.Fields()) > 0
			fseen := map[string]bool{}
			for _, f := range tt.Fields() {
				ok = ok && goodName(f.N) && !fseen[f.N] && known(f.Type) && isInput(f.Type)
				fseen[f.N] = true
			}
		}
	}
	return ok
}

func isObjectLike(t ggql.Type) bool {
	switch t.(type) {
	case *ggql.Object, *ggql.Interface, *ggql.Union:
		return true
	}
	return false
}

// C13_rules
func C13_rules() {
	c := c13Cases[sym.Choice("case", len(c13Cases))]
	n1 := nameToken("name 1")
	n2 := nameToken("name 2")
	n3 := sym.String("name 3", 3)
	for i := 0; i < 3; i++ {
		sym.Assume(sym.Or(isNameByte(n3[i]), sym.And(i > 0, n3[i] >= '0', n3[i] <= '9')))
	}
	sym.Assume(sym.And(n3 != "Obj", n3 != "Int")) // (as a type name it must not collide with the base)
	wrapped := c13Wrappers[0]
	extra := ""
	for i := 0; i < len(c.extra); i++ {
		if c.extra[i] == 0xC2 && i+1 < len(c.extra) {
			switch c.extra[i+1] {
			case 0xA7: // §
				if i+5 < len(c.extra) && c.extra[i+2] == 0xC2 && c.extra[i+3] == 0xA7 && c.extra[i+4] == 0xC2 && c.extra[i+5] == 0xA7 {
					extra += n3
					i += 5
				} else {
					extra += n1
					i++
				}
				continue
			case 0xB6: // ¶
				extra += n2
				i++
				continue
			case 0xA4: // ¤ : an undefined type under an E wrapper
				wrapped = c13Wrappers[sym.Choice("wrapper", len(c13Wrappers))]
				extra += wrapped
				i++
				continue
			}
		}
		extra += c.extra[i : i+1]
	}
	doc := c13Base + extra + "\n"
	sym.Observe("extra", extra)
	sym.Budget(30_000_000)
	root := ggql.NewRoot(nil)
	err := root.ParseString(doc)
	sym.Observe("rejected", err != nil)
	expectReject := c.accept == 0 || c.accept == 4
	if sym.Known("C13-directive-location-below-type-level", c.accept == 4) {
		return
	}
	switch c.accept {
	case 2:
		expectReject = n1 == n2
	case 3:
		expectReject = n3[0] == '_' && n3[1] == '_'
	}
	if expectReject {
		sym.Assert(err != nil, "a schema breaking a rule is refused")
		if c.names != "" {
			sym.Assert(sym.Contains(err.Error(), c.names), "the error names the offender")
		}
		if c.accept == 2 {
			sym.Assert(sym.Contains(err.Error(), n1), "the error names the offender")
		}
		if c.accept == 3 {
			sym.Assert(sym.Contains(err.Error(), n3), "the error names the offender")
		}
		return
	}
	sym.Assert(err == nil, "a well-formed schema is accepted")
	sym.Assert(c13Recheck(root), "an accepted schema passes an independent re-check of the rules")
}

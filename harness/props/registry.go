package props

// All maps harness names to functions for the native replay runner.
var All = map[string]func(){
	"C05_IntOut_num":     C05_IntOut_num,
	"C05_IntOut_string":  C05_IntOut_string,
	"C05_Int64Out_num":   C05_Int64Out_num,
	"C05_FloatOut_num":   C05_FloatOut_num,
	"C05_Float64Out_num": C05_Float64Out_num,
	"C05_BoolOut":        C05_BoolOut,
	"C05_StringOut_int":  C05_StringOut_int,
}

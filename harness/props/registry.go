package props

// All maps harness names to functions for the native replay runner.
var All = map[string]func(){
	"C05_IntOut_int64": C05_IntOut_int64,
}

package props

// C05 end to end: a Resolver returns, for a field of each leaf type (alone,
// in a list, in a list of lists), a value of an E-chosen Go kind with S
// payload; the response is walked against the declared type: the declared
// representation or null, and null for a non-nil resolver value only together
// with exactly one error whose path is that position.

import (
	"github.com/uhn/ggql/pkg/ggql"

	"verif/harness/sym"
)

const c05Schema = `
type Query { i: Int f: Float g: Float64 j: Int64 s: String d: ID b: Boolean e: En li: [Int] lf: [Float] lli: [[Int]] k: Int }
enum En { P Q }
`

type c05Node struct {
	field string
	val   interface{}
}

func (n *c05Node) Resolve(field *ggql.Field, args map[string]interface{}) (interface{}, error) {
	switch field.Name {
	case "query":
		return n, nil
	case "k":
		return int32(5), nil
	case n.field:
		return n.val, nil
	}
	return nil, nil
}

type c05Odd struct{ X int }

// c05Value draws a resolver value: E kind, S payload.  The numeric kinds
// whose conversion is a recorded finding of the kernels (floats into Int,
// unsigned wrap, non-finite floats) are left to the kernels.
func c05Value(name string) (v interface{}, kind string) {
	switch sym.Choice(name+" kind", 9) {
	case 0:
		return sym.Int64(name), "int64"
	case 1:
		return sym.Int32(name), "int32"
	case 2:
		texts := []string{"12", "abc", "", "1e999", "-2", "1.5", "true", "P", "three"}
		return texts[sym.Choice(name+" text", len(texts))], "string"
	case 3:
		return sym.Bool(name), "bool"
	case 4:
		return c05Odd{1}, "struct"
	case 5:
		return (*c05Odd)(nil), "nilptr"
	case 6:
		return ggql.Symbol([]string{"P", "Z"}[sym.Choice(name+" sym", 2)]), "symbol"
	case 7:
		return []interface{}{int32(1)}, "list"
	}
	return nil, "nil"
}

// c05Conforms: the JSON shape of a leaf of type t.
func c05Conforms(t string, v interface{}) bool {
	if v == nil {
		return true
	}
	switch t {
	case "Int":
		_, ok := v.(int32)
		return ok
	case "Float":
		_, ok := v.(float32)
		return ok
	case "Float64":
		_, ok := v.(float64)
		return ok
	case "Int64":
		_, ok := v.(int64)
		return ok
	case "String", "ID":
		_, ok := v.(string)
		return ok
	case "Boolean":
		_, ok := v.(bool)
		return ok
	case "En":
		s, ok := v.(string)
		return ok && (s == "P" || s == "Q")
	}
	return false
}

// C05_shape
func C05_shape() {
	fields := []struct {
		name, typ string
		depth     int
	}{
		{"i", "Int", 0}, {"f", "Float", 0}, {"g", "Float64", 0}, {"j", "Int64", 0}, {"s", "String", 0}, {"d", "ID", 0},
		{"b", "Boolean", 0}, {"e", "En", 0}, {"li", "Int", 1}, {"lf", "Float", 1}, {"lli", "Int", 2},
	}
	f := fields[sym.Choice("field", len(fields))]
	var val interface{}
	var leaves []interface{} // resolver values at the leaf positions, in order
	var paths [][]interface{}
	switch f.depth {
	case 0:
		v, _ := c05Value("v")
		val = v
		leaves, paths = []interface{}{v}, [][]interface{}{{f.name}}
	case 1:
		v0, _ := c05Value("v0")
		v1, _ := c05Value("v1")
		val = []interface{}{v0, v1}
		leaves, paths = []interface{}{v0, v1}, [][]interface{}{{f.name, 0}, {f.name, 1}}
	default:
		v0, _ := c05Value("v0")
		val = []interface{}{[]interface{}{v0}, nil}
		leaves, paths = []interface{}{v0}, [][]interface{}{{f.name, 0, 0}}
	}
	root := ggql.NewRoot(&c05Node{field: f.name, val: val})
	if err := root.ParseString(c05Schema); err != nil {
		panic("harness schema rejected: " + err.Error())
	}
	sym.Budget(6_000_000)
	res := root.ResolveString("{k "+f.name+"}", "", nil)
	sym.Observe("res", res)
	data, _ := res["data"].(map[string]interface{})
	sym.Assert(data != nil && data["k"] != nil, "data present, sibling resolved")
	// collect the response leaves
	var got []interface{}
	shapeOK := true
	switch f.depth {
	case 0:
		got = []interface{}{data[f.name]}
	case 1:
		l, ok := data[f.name].([]interface{})
		shapeOK = ok && len(l) == 2
		if shapeOK {
			got = l
		}
	default:
		l, ok := data[f.name].([]interface{})
		shapeOK = ok && len(l) == 2 && l[1] == nil
		if shapeOK {
			inner, ok2 := l[0].([]interface{})
			shapeOK = ok2 && len(inner) == 1
			if shapeOK {
				got = inner
			}
		}
	}
	// a list-typed position given something that is not a list is itself a failure of that position
	sym.Assert(shapeOK, "lists mirrored element by element")
	errs, _ := res["errors"].([]interface{})
	nfail := 0
	for k, g := range got {
		if gs, isStr := g.(string); f.typ == "En" && isStr && sym.Known("C05-enum-out-not-a-member", gs != "P" && gs != "Q") {
			return
		}
		sym.Assert(c05Conforms(f.typ, g), "leaf has the representation of its declared type or is null")
		if g == nil && !ggql.IsNil(leaves[k]) {
			// null for a value the resolver did supply: an error for that position
			nfail++
			found := 0
			for _, e := range errs {
				em, _ := e.(map[string]interface{})
				if sym.DeepEqual(em["path"], interface{}(paths[k])) {
					found++
				}
			}
			sym.Assert(found == 1, "a value that cannot be represented yields null plus one error at that position")
		}
	}
	sym.Assert(len(errs) == nfail, "no other errors")
}

// ---- one Go slice returned for several list fields of different leaf types

const c05SharedSchema = `type Query { li: [Int] ls: [String] ld: [ID] lf: [Float] }`

type c05SharedNode struct{ list []interface{} }

func (n *c05SharedNode) Resolve(field *ggql.Field, args map[string]interface{}) (interface{}, error) {
	if field.Name == "query" {
		return n, nil
	}
	return n.list, nil
}

// C05_shared: the application hands the same []interface{} to several list
// fields (S int32 elements): each position of each field still has the shape
// of ITS declared type, in whatever order the fields are selected, and the
// application's slice is left as it was.
func C05_shared() {
	a, b := sym.Int32("a"), sym.Int32("b")
	sym.Assume(sym.And(a >= -9, a < 100, b >= 0, b < 10)) // formatting bound (DESIGN.md section 3.4)
	n := &c05SharedNode{list: []interface{}{a, b}}
	root := ggql.NewRoot(n)
	if err := root.ParseString(c05SharedSchema); err != nil {
		panic("harness schema rejected: " + err.Error())
	}
	docs := []string{"{li ls}", "{ls li}", "{ld li lf}", "{lf x:li ls}"}
	res := root.ResolveString(docs[sym.Choice("doc", len(docs))], "", nil)
	sym.Observe("res", res)
	sym.Assert(res["errors"] == nil, "valid request has no errors")
	data, _ := res["data"].(map[string]interface{})
	sym.Assert(data != nil, "data present")
	for k, v := range data {
		l, ok := v.([]interface{})
		sym.Assert(ok && len(l) == 2, "lists mirrored element by element")
		for _, e := range l {
			switch k {
			case "li", "x":
				_, is := e.(int32)
				sym.Assert(is, "leaf has the representation of its declared type")
			case "ls", "ld":
				_, is := e.(string)
				sym.Assert(is, "leaf has the representation of its declared type")
			default:
				_, is32 := e.(float32)
				_, is64 := e.(float64)
				sym.Assert(is32 || is64, "leaf has the representation of its declared type")
			}
		}
	}
	e0, ok0 := n.list[0].(int32)
	e1, ok1 := n.list[1].(int32)
	sym.Assert(ok0 && ok1 && e0 == a && e1 == b, "the application's slice is left as it was")
}

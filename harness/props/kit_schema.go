package props

// SDL-level kit: a description of a loaded schema read through ggql's public
// API only (types, fields, arguments, wrappers, defaults, descriptions,
// directive uses, members, interfaces), as nested maps / lists / strings so
// that two roots can be compared with one sym.DeepEqual.

import (
	"sort"

	"github.com/uhn/ggql/pkg/ggql"
)

func descDirs(dus []*ggql.DirectiveUse) interface{} {
	out := []interface{}{}
	for _, du := range dus {
		m := map[string]interface{}{"name": du.Directive.Name()}
		args := map[string]interface{}{}
		for k, av := range du.Args {
			if av != nil {
				args[k] = av.Value
			}
		}
		m["args"] = args
		out = append(out, m)
	}
	return out
}

func descArgs(args []*ggql.Arg) interface{} {
	out := []interface{}{}
	for _, a := range args {
		out = append(out, map[string]interface{}{"name": a.N, "desc": a.Desc, "type": a.Type.Name(), "default": a.Default, "dirs": descDirs(a.Dirs)})
	}
	return out
}

func descFields(fds []*ggql.FieldDef) interface{} {
	out := []interface{}{}
	for _, f := range fds {
		out = append(out, map[string]interface{}{"name": f.N, "desc": f.Desc, "type": f.Type.Name(), "args": descArgs(f.Args()), "dirs": descDirs(f.Dirs)})
	}
	return out
}

// descType describes one type.
func descType(t ggql.Type) map[string]interface{} {
	m := map[string]interface{}{"name": t.Name(), "desc": t.Description(), "dirs": descDirs(t.Directives())}
	switch tt := t.(type) {
	case *ggql.Object:
		m["kind"] = "OBJECT"
		m["fields"] = descFields(tt.Fields())
		var is []interface{}
		for _, i := range tt.Interfaces {
			is = append(is, i.Name())
		}
		m["interfaces"] = is
	case *ggql.Interface:
		m["kind"] = "INTERFACE"
		m["fields"] = descFields(tt.Fields())
	case *ggql.Union:
		m["kind"] = "UNION"
		var ms []interface{}
		for _, x := range tt.Members {
			ms = append(ms, x.Name())
		}
		m["members"] = ms
	case *ggql.Enum:
		m["kind"] = "ENUM"
		vals := []interface{}{}
		for _, ev := range tt.Values() {
			vals = append(vals, map[string]interface{}{"name": string(ev.Value), "desc": ev.Description, "dirs": descDirs(ev.Directives)})
		}
		m["values"] = vals
	case *ggql.Input:
		m["kind"] = "INPUT_OBJECT"
		fs := []interface{}{}
		for _, f := range tt.Fields() {
			fs = append(fs, map[string]interface{}{"name": f.N, "desc": f.Desc, "type": f.Type.Name(), "default": f.Default, "dirs": descDirs(f.Dirs)})
		}
		m["fields"] = fs
	case *ggql.Scalar:
		m["kind"] = "SCALAR"
	case *ggql.Directive:
		m["kind"] = "DIRECTIVE"
		var on []interface{}
		for _, l := range tt.On {
			on = append(on, string(l))
		}
		m["on"] = on
	default:
		m["kind"] = "OTHER"
	}
	return m
}

// descSchema describes every type of the root that is not built in, keyed by
// name, and the order in which Root.Types() lists them.
func descSchema(root *ggql.Root, names ...string) map[string]interface{} {
	out := map[string]interface{}{}
	var order []string
	for _, t := range root.Types() {
		if t.Core() {
			continue
		}
		out[t.Name()] = descType(t)
		order = append(order, t.Name())
	}
	for _, n := range names { // directives are looked up by name
		if t := root.GetType(n); t != nil {
			out["@"+n] = descType(t)
		}
	}
	sorted := append([]string{}, order...)
	sort.Strings(sorted)
	out["#sorted"] = sameOrder(order, sorted)
	return out
}

func sameOrder(a, b []string) bool {
	for k := range a {
		if a[k] != b[k] {
			return false
		}
	}
	return true
}

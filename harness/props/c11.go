package props

import (
	"github.com/uhn/ggql/pkg/ggql"

	"verif/harness/sym"
)

const c11Schema = `
type Query { g(x: Int, y: Int): Int h(in: In, list: [Int]): Int hb(in: Bd): Int s(x: String): String o: Obj }
type Obj { g(x: Int, y: Int): Int }
input In { a: Int b: [Int] }
input Bd { a: Int c: Int }
`

// C11Bd is the Go type the input type Bd is bound to (RegisterType): ggql
// then hands the resolver a *C11Bd instead of a map.
type C11Bd struct {
	A int32
	C int32
}

// c11Node echoes its arguments so that a response depends on what the
// resolver was handed.
type c11Node struct{}

func sumArg(v interface{}) int32 {
	switch tv := v.(type) {
	case int32:
		return tv
	case int64:
		return int32(tv)
	case []interface{}:
		var s int32
		for _, e := range tv {
			s = s*3 + sumArg(e)
		}
		return s
	case map[string]interface{}:
		return sumArg(tv["a"])*5 + sumArg(tv["b"])
	}
	return 0
}

func (n *c11Node) Resolve(field *ggql.Field, args map[string]interface{}) (interface{}, error) {
	switch field.Name {
	case "query", "o":
		return n, nil
	case "g":
		return sumArg(args["x"])*7 + sumArg(args["y"]), nil
	case "h":
		return sumArg(args["in"])*11 + sumArg(args["list"]), nil
	case "hb":
		if bd, ok := args["in"].(*C11Bd); ok && bd != nil {
			return bd.A*13 + bd.C, nil
		}
		return int32(-1), nil
	case "s":
		x, _ := args["x"].(string)
		return x, nil
	}
	return nil, nil
}

var c11Docs = []string{
	"query A($v:Int){g(y:$v, x:2)} query B($v:Int){g(x:$v)}",
	"query A($v:Int){h(in:{a:$v, b:[$v, 1]})} query B($v:Int){h(list:[1,$v])}",
	"query A($v:Int){...F o{...G}} query B($v:Int){o{...G} g(y:$v)} fragment F on Query{g(y:$v)} fragment G on Obj{g(x:$v, y:1)}",
	"query A($v:Int=4){g(x:$v)} query B($v:Int){__type(name:\"Obj\"){name} g(x:$v)}",
	"query A($v:Int){a:g(x:$v) b:g(y:$v)} query B($v:Int){h(list:[$v])}",
	"query A($v:Int){hb(in:{a:$v c:1})} query B($v:Int){hb(in:{c:$v})}",     // input type bound to a Go struct
	"query A($v:Int){g(x:$v zz:1)} query B($v:Int){o{g(zz:$v)} s(x:\"k\")}", // an invalid request must stay invalid
}

// C11_repeat: resolving a parsed executable again - other variables, the
// other operation, any order - gives exactly the response of a freshly
// parsed copy, and its printed form does not change.
func C11_repeat() {
	doc := c11Docs[sym.Choice("doc", len(c11Docs))]
	root := ggql.NewRoot(&c11Node{})
	if err := root.ParseString(c11Schema); err != nil {
		panic("harness schema rejected: " + err.Error())
	}
	if root.RegisterType(&C11Bd{}, "Bd") != nil {
		panic("harness: RegisterType refused")
	}
	exe, err := root.ParseExecutableString(doc)
	sym.Assert(err == nil, "document accepted")
	printed := exe.String()
	steps := 2
	if sym.Thorough() {
		steps = 3
	}
	sym.Budget(8_000_000)
	for k := 0; k < steps; k++ {
		op := "A"
		if sym.Choice("op", 2) == 1 {
			op = "B"
		}
		vars := map[string]interface{}{"v": sym.Int32("v")}
		if sym.Choice("variable supplied", 2) == 0 {
			vars = map[string]interface{}{} // the declared default, if any, applies
		}
		got, _ := root.ResolveExecutable(exe, op, vars)
		fresh, ferr := root.ParseExecutableString(doc)
		sym.Assert(ferr == nil, "document accepted")
		vars2 := map[string]interface{}{}
		for k, v := range vars {
			vars2[k] = v
		}
		want, _ := root.ResolveExecutable(fresh, op, vars2)
		sym.Observe("got", got)
		sym.Assert(sym.DeepEqual(interface{}(got), interface{}(want)), "same response as a freshly parsed copy")
		if sym.Known("C11-args-reordered-in-printed-form", true) {
			continue
		}
		sym.Assert(exe.String() == printed, "printed form unchanged")
	}
}

// C11_abstract: the same parsed executable resolved over different data: the
// objects behind an interface-typed list change their concrete types from
// call to call (covariant fields), and each call must answer like a fresh
// parse.
func C11_abstract() {
	sh, _ := c01AbsShape(sym.Choice("shape", 4))
	q := &c01AbsQuery{}
	root := ggql.NewRoot(q)
	if err := root.ParseString(c01AbsSchema); err != nil {
		panic("harness schema rejected: " + err.Error())
	}
	if root.RegisterType(&C01Dog{}, "Dog") != nil || root.RegisterType(&C01Cat{}, "Cat") != nil {
		panic("harness: RegisterType refused")
	}
	doc := sh.render()
	exe, err := root.ParseExecutableString(doc)
	sym.Assert(err == nil, "document accepted")
	printed := exe.String()
	// quick: 2 calls over 1-2 pets each; thorough: also 3 calls over 1 pet each
	rounds, maxPets := 2, 2
	if sym.Thorough() && sym.Choice("calls", 2) == 1 {
		rounds, maxPets = 3, 1
	}
	sym.Budget(12_000_000)
	for round := 0; round < rounds; round++ {
		q.pets = c01Pets("r"+string(rune('0'+round))+"p", 1+sym.Choice("pets", maxPets))
		got, _ := root.ResolveExecutable(exe, "", nil)
		fresh, ferr := root.ParseExecutableString(doc)
		sym.Assert(ferr == nil, "document accepted")
		want, _ := root.ResolveExecutable(fresh, "", nil)
		sym.Assert(sym.DeepEqual(interface{}(got), interface{}(want)), "same response as a freshly parsed copy")
		sym.Assert(exe.String() == printed, "printed form unchanged")
	}
}

// C11_directives: a parsed executable whose selections carry @skip /
// @include driven by variables, resolved again and again with other truth
// values (S): a selection left out by one call is back in the next, and the
// selections written after it are unaffected.
func C11_directives() {
	const doc = "query A($h:Boolean=false $i:Boolean=true){g(x:1) a:g(x:2) @skip(if:$h) b:g(x:3) ...F @include(if:$i) c:g(x:4) " +
		"...on Query @skip(if:$i){e:g(x:8)} o{g(x:5) @skip(if:$h) d:g(x:6)}} fragment F on Query{f:g(x:7) @include(if:$h) k:g(x:9)}"
	root := ggql.NewRoot(&c11Node{})
	if err := root.ParseString(c11Schema); err != nil {
		panic("harness schema rejected: " + err.Error())
	}
	exe, err := root.ParseExecutableString(doc)
	sym.Assert(err == nil, "document accepted")
	steps := 2
	if sym.Thorough() {
		steps = 3
	}
	sym.Budget(8_000_000)
	for k := 0; k < steps; k++ {
		vars := map[string]interface{}{}
		if sym.Choice("skip supplied", 2) == 1 {
			vars["h"] = sym.Bool("h")
		}
		if sym.Choice("include supplied", 2) == 1 {
			vars["i"] = sym.Bool("i")
		}
		got, _ := root.ResolveExecutable(exe, "A", vars)
		fresh, ferr := root.ParseExecutableString(doc)
		sym.Assert(ferr == nil, "document accepted")
		vars2 := map[string]interface{}{}
		for k, v := range vars {
			vars2[k] = v
		}
		want, _ := root.ResolveExecutable(fresh, "A", vars2)
		sym.Observe("got", got)
		sym.Assert(sym.DeepEqual(interface{}(got), interface{}(want)), "same response as a freshly parsed copy")
	}
}

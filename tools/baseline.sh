#!/bin/bash
# Runs the repository's pinned test suite (guard tag OFF) and compares the set
# of passing tests with the 238 stable tests of BASELINE.json.
cd /repo || exit 2
export GOFLAGS=-mod=mod GOPROXY=off GOSUMDB=off
out=$(mktemp)
go test -json -vet=off -count=1 -timeout 25m ./... > "$out" 2>/dev/null
python3 - "$out" <<'PY'
import json,sys
passed=set()
for line in open(sys.argv[1]):
    try: e=json.loads(line)
    except Exception: continue
    if e.get('Action')=='pass' and e.get('Test') and '/' not in e['Test']:
        passed.add(e['Package']+'::'+e['Test'])
stable=[l.strip() for l in open('/verif/tools/baseline_stable.txt') if l.strip()]
missing=[t for t in stable if t not in passed]
print(f"baseline: {len(stable)-len(missing)}/{len(stable)} stable tests pass")
for t in missing: print("MISSING", t)
sys.exit(1 if missing else 0)
PY
rc=$?
rm -f "$out"
exit $rc

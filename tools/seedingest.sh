#!/bin/bash
# usage: seedingest.sh <agent-worktree> <seed-id e.g. C15-c>
# Confirms a sub-agent's seeded change (builds, stable tests pass, demo fails
# with the change and passes without) and stores it under /verif/seeded/<id>.
wt=$1; id=$2; out=/verif/seeded/$id
export GOFLAGS=-mod=mod GOPROXY=off GOSUMDB=off GOTOOLCHAIN=local
mkdir -p "$out"
cd "$wt" || exit 2
cp pkg/ggql/zz_seed_demo_test.go "$out/zz_seed_demo_test.go.txt" || exit 2
cp agent_notes.md "$out/agent_notes.md" 2>/dev/null
git diff -- . ':!pkg/ggql/zz_seed_demo_test.go' > "$out/patch.diff"
echo "patch: $(git diff --stat -- . | tail -1)"
go build ./... || { echo BUILD-FAIL; exit 1; }
demo=$(grep -o "^func Test[A-Za-z0-9_]*" pkg/ggql/zz_seed_demo_test.go | sed 's/func //' | paste -sd'|')
race=""; grep -qi "\-race" agent_notes.md 2>/dev/null && race="-race"
go test -vet=off -count=1 $race -run "^($demo)\$" ./pkg/ggql/ > /tmp/ingest.$$.with 2>&1; with=$?
mv pkg/ggql/zz_seed_demo_test.go /tmp/ingest.$$.demo
go test -json -vet=off -count=1 ./... 2>/dev/null | python3 -c "
import json,sys
passed=set()
for line in sys.stdin:
    try: e=json.loads(line)
    except Exception: continue
    if e.get('Action')=='pass' and e.get('Test') and '/' not in e['Test']: passed.add(e['Package']+'::'+e['Test'])
stable=[l.strip() for l in open('/verif/tools/baseline_stable.txt') if l.strip()]
missing=[t for t in stable if t not in passed]
print(f'stable tests with change: {len(stable)-len(missing)}/{len(stable)}', missing[:5])
"
mv /tmp/ingest.$$.demo pkg/ggql/zz_seed_demo_test.go
git stash -q -- $(git diff --name-only)
go test -vet=off -count=1 $race -run "^($demo)\$" ./pkg/ggql/ > /tmp/ingest.$$.without 2>&1; without=$?
git stash pop -q
echo "demo ($demo $race): with change rc=$with, without rc=$without"
rm -f /tmp/ingest.$$.*

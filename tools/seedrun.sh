#!/bin/bash
# usage: seedrun.sh <seeded-dir> <property> [tier] : applies a seeded change to /repo, runs the
# property's check, undoes the change; prints the verdict.
d=$1; prop=$2; tier=${3:-quick}
git -C /repo diff --quiet || { echo "/repo is dirty"; exit 2; }
git -C /repo apply $d/patch.diff || { echo "patch does not apply"; exit 2; }
s=$(date +%s)
out=$(/verif/check $prop $tier 2>/tmp/seedrun.err); rc=$?
e=$(( $(date +%s) - s ))
git -C /repo checkout -- .
echo "== $d on $prop/$tier: rc=$rc ${e}s violations=$(echo "$out" | grep -c '^VIOLATION')"
echo "$out" | grep -v KNOWN-FINDING | head -4
grep -E "natively|inconclusive" /tmp/seedrun.err | head -4 | cut -c1-400

#!/bin/bash
# usage: seedrun.sh <seeded-dir> <property> [tier]
# Applies a seeded change in a scratch worktree of /repo (never /repo itself),
# runs the property's check against it (VERIF_REPO), removes the worktree.
d=$1; prop=$2; tier=${3:-quick}
wt=$(mktemp -d /tmp/seedrun-XXXXXX); rmdir "$wt"
git -C /repo worktree add -q --detach "$wt" HEAD || exit 2
git -C "$wt" apply "$d/patch.diff" || { echo "patch does not apply"; git -C /repo worktree remove --force "$wt"; exit 2; }
s=$(date +%s)
out=$(VERIF_REPO="$wt" /verif/check $prop $tier 2>/tmp/seedrun.$$.err); rc=$?
e=$(( $(date +%s) - s ))
git -C /repo worktree remove --force "$wt"; git -C /repo worktree prune
echo "== $d on $prop/$tier: rc=$rc ${e}s violations=$(echo "$out" | grep -c '^VIOLATION')"
echo "$out" | grep -v KNOWN-FINDING | head -4
grep -E "natively|inconclusive" /tmp/seedrun.$$.err | head -4 | cut -c1-400
rm -f /tmp/seedrun.$$.err

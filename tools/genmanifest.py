#!/usr/bin/env python3
# Generates /verif/MANIFEST.json from the table below (kept in one place so
# that the manifest is always valid and complete).
import json
props=[json.loads(l)['id'] for l in open('/verif/properties.jsonl')]
LEVEL="bounded symbolic model checking of ggql's SSA (go/ssa of /repo's working tree, rebuilt on every run): every feasible path of each harness is explored, every branch on a symbolic condition, every implicit run-time check and every assertion is decided by z3 over all values of the symbolic inputs within the bounds written in the harness; counterexamples are replayed against the natively compiled ggql before they are reported"
NOTE="trusted: go/ssa lowering, the engine's instruction semantics (cross-validated against native runs on sampled paths in every run), the environment models listed in each evidence file (DESIGN.md 3.3), z3 4.8.12, the harness oracles under /verif/harness/props; nothing outside the bounds stated in the evidence is claimed"
claimed={
 "C01":("DESIGN.md section 5 C01","symbolic execution of ParseExecutable+ResolveExecutable over a bounded request-shape grammar (E) with symbolic aliases, leaf values, null-ness and operation names (S); oracle = independent reference executor compared by one solver term (DeepEqual); native replay"),
 "C06":("DESIGN.md section 5 C06","symbolic execution of the resolver with every single resolver invocation made to fail in turn (E failAt over the reference walk), error path and partial data compared with a harness-computed expectation; z3 decides alias collisions and leaf values"),
 "C07":("DESIGN.md section 5 C07","symbolic execution of Resolve* and the JSON writer: envelope predicate over all byte strings up to N bytes and invalid-request families, reference JSON reader over the serialised text, error locations over symbolic separator layouts"),
 "C08":("DESIGN.md section 5 C08","symbolic execution of resolve (*Union, *Interface), implementer, metaCheck, assureType, resolveReflect, resolveInline/resolveFragRef/fragApplies and the __typename branch over the family {container field kind} x {fragment condition A/B/I/U/unrelated/none, inline or named} x {concrete type of every list element} x {binding by name, RegisterType, @go, registered Resolver nodes} x {cold, warm root}, leaf values symbolic; oracle = the harness's own type hierarchy; reflect is modelled over go/types"),
 "C09":("DESIGN.md section 5 C09","symbolic execution of skipSel/resolveSels over all arrangements (E) of @skip/@include forms with symbolic truth values (S); inclusion formula decided by z3"),
 "C10":("DESIGN.md section 5 C10","symbolic execution of request validation/resolution with one undefined thing injected (E case) whose name is symbolic bytes (S); message containment and resolver-call log decided by z3"),
 "C11":("DESIGN.md section 5 C11","symbolic execution of repeated ResolveExecutable on one parsed executable (E histories, S variable values) compared call by call with fresh parses"),
 "C18":("DESIGN.md section 5 C18","symbolic execution of the value writers and ParseValue over symbolic strings (all byte values), E value trees with S leaves, reference JSON reader; round-trip equalities decided by z3"),
 "C19":("DESIGN.md section 5 C19","symbolic execution of the subscription branch of ResolveExecutable, subscribe, Subscription.prep, AddEvent and Unsubscribe from registries built through real subscription requests; every Match answer and Send failure is a free symbolic boolean per (subscriber, operation), event payloads symbolic; lock-step reference registry model and reference executor for the delivered selection; z3 decides every pattern"),
 "C20":("DESIGN.md section 5 C20","symbolic execution of subscribe/AddEvent/Unsubscribe called from 2-3 goroutines under the engine's scheduler: the thread to run at every synchronisation point is a decision explored like a data branch, Match answers and Send failures are free symbolic booleans, a vector-clock happens-before monitor watches every memory cell; oracle = per-subscriber delivery/clean-up predicates over logical time stamps; schedule-dependent counterexamples are replayed natively under the recorded schedule (mutex overlay), races under the Go race detector"),
 "C02":("DESIGN.md section 5 C02","symbolic execution of resolveField's strategy dispatch, resolveReflect, regField, assureType, RegisterType/RegisterField, resolveList (ListResolver, []interface{}, typed slice, AnyResolver, reflected slice) and formArgs/formReflectArgs over one neutral data graph (symbolic leaves, null-ness, list variants) instantiated as Resolver nodes, maps behind an AnyResolver, structs/methods by reflection (auto and registered) and E-assigned mixed graphs; request shapes from the kit grammar plus string/boolean argument documents with symbolic values; responses compared by one solver term; precedence through the call log"),
 "C03":("DESIGN.md section 5 C03","symbolic execution of the SSA of both parsers, the value reader/writers and the resolver over all byte strings up to N bytes, hole templates with symbolic bytes, hostile request families x three strategies, symbolic reader fault offsets; implicit panic / call-depth / instruction-budget checks decided by z3; native replay"),
 "C04":("DESIGN.md section 5 C04","symbolic execution of the SSA of every scalar CoerceIn with full-width symbolic integers and floats and symbolic strings, and of ParseExecutable+ResolveExecutable (opVars, formArgs, replaceArgVars, List/NonNull/Input/Enum.CoerceIn) with written values delivered as literals, variables, variable defaults and nested in list/object literals: symbolic digits, signs, boundary templates around 2^31, 2^32 and 2^63, presence patterns; oracle = reference input coercion in the harness; z3 verdicts; native replay"),
 "C05":("DESIGN.md section 5 C05","symbolic execution of the SSA of every scalar CoerceOut with full-width symbolic integers and floats and symbolic strings; SMT (z3) verdicts; native replay of models"),
}
na_reason={}
m={
 "version":1,
 "setup_cmd":"cd /verif/engine && GOFLAGS=-mod=vendor GOPROXY=off GOSUMDB=off GOTOOLCHAIN=local go build -o /verif/bin/gosym ./cmd/gosym && cd /verif/harness && GOFLAGS=-mod=mod GOPROXY=off GOSUMDB=off GOTOOLCHAIN=local go build ./...",
 "hooks":{"guard":"verif","enable":"none needed: harnesses are an external Go package that calls ggql's public API; the engine loads /repo's working tree through the harness module's replace directive, so no source in /repo is instrumented","baseline_off_cmd":"/verif/tools/baseline.sh","source_commits":[],"add_only":True},
 "engines":[{"name":"gosym","path":"/verif/engine","serves_properties":sorted(claimed),"kind_free_text":"bounded symbolic executor for Go SSA (derived from x/tools ssa/interp) with z3 over a pipe as the deciding solver; harnesses in /verif/harness/props; counterexamples replayed against the natively compiled ggql"}],
 "checks":[],
 "notes":"exit 0 = every path of every harness decided and all obligations unsat; exit 1 = natively reproduced counterexample outside the known-finding regions (VIOLATION line); exit 3 = inconclusive (INCONCLUSIVE line, never counted as success). Known findings: /verif/known_findings.json.",
 "not_applicable":[],
}
for p in props:
    if p in claimed:
        ref,tech=claimed[p]
        m["checks"].append({"property_id":p,"quick_cmd":"/verif/check %s quick"%p,"thorough_cmd":"/verif/check %s thorough"%p,
          "evidence_file":"/verif/evidence/%s.json"%p,"replay_cmd_template":"/verif/bin/gosym replay {path}","engine":"gosym",
          "level_claimed":{"category":"model_checking","text":LEVEL,"design_ref":ref},"level_note":NOTE,"technique":tech})
    else:
        m["not_applicable"].append({"property_id":p,"reason":na_reason.get(p,"not claimed yet: the harness for this property has not been built (work in progress, see DESIGN.md section 8 build order)")})
json.dump(m,open('/verif/MANIFEST.json','w'),indent=1)

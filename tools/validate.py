import json,jsonschema,sys,glob
m=json.load(open('/verif/MANIFEST.json'))
jsonschema.validate(m,json.load(open('/root/.vp/MANIFEST.schema.json')))
es=json.load(open('/root/.vp/EVIDENCE.schema.json'))
for c in m['checks']:
    try:
        e=json.load(open(c['evidence_file']))
        jsonschema.validate(e,es)
        print(c['property_id'],'evidence ok: states',e['coverage'].get('states'),'wall',e['wall_s'],'tier',e['tier'])
    except Exception as ex:
        print(c['property_id'],'EVIDENCE PROBLEM',str(ex)[:200])
ids=[json.loads(l)['id'] for l in open('/verif/properties.jsonl')]
claimed={c['property_id'] for c in m['checks']}
na={n['property_id'] for n in m.get('not_applicable',[])}
print('unaccounted:',[i for i in ids if i not in claimed and i not in na])

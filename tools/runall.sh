#!/bin/bash
# usage: runall.sh quick|thorough [ids...]     (RUNALL_TIMEOUT=<seconds> per check, default none)
tier=${1:-quick}; shift
ids=${@:-$(python3 -c "import json;print(' '.join(c['property_id'] for c in json.load(open('/verif/MANIFEST.json'))['checks']))")}
for id in $ids; do
  s=$(date +%s)
  if [ -n "$RUNALL_TIMEOUT" ]; then
    out=$(timeout $RUNALL_TIMEOUT /verif/check $id $tier 2>/tmp/runall.$id.err); rc=$?
  else
    out=$(/verif/check $id $tier 2>/tmp/runall.$id.err); rc=$?
  fi
  e=$(( $(date +%s) - s ))
  echo "== $id rc=$rc ${e}s :: $(echo "$out" | grep -c KNOWN-FINDING) known, $(echo "$out" | grep -c '^VIOLATION') violations"
  echo "$out" | grep -v KNOWN-FINDING | head -5
  if [ $rc -ne 0 ]; then grep -i "inconclusive\|natively" /tmp/runall.$id.err | head -8; fi
done
